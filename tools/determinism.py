#!/usr/bin/env python3
"""Determinism proof for the simulator: every harness, N seeds, each seed run in two different worker processes (different CPU,
different position in the batch, hence different heap history); the result lines (event hash, steps, switches, verdict) must be
byte-identical.  Whole-program: M cases twice; event hash and every output file must be identical.
usage: tools/determinism.py [N] [M]"""
import json
import os
import subprocess
import sys

sys.path.insert(0, os.path.dirname(os.path.dirname(os.path.abspath(__file__))))
from vlib import psim, props_psim as P  # noqa: E402
from vlib.common import BUILD, VERIF  # noqa: E402

N = int(sys.argv[1]) if len(sys.argv) > 1 else 2000
M = int(sys.argv[2]) if len(sys.argv) > 2 else 40
report = {"dsim": {}, "psim": {}}
for h in ["orwl", "unionfind", "btree", "btreedelete", "brie", "eqrel", "flyweight"]:
    exe = os.path.join(BUILD, "dsim", h)
    if not os.path.exists(exe):
        subprocess.run([os.path.join(VERIF, "dsim", "build.sh"), h], check=True)
    n = N if h in ("orwl", "unionfind", "flyweight", "btreedelete") else max(200, N // 5)

    def lines(args):
        out = subprocess.run([exe] + args, stdout=subprocess.PIPE, stderr=subprocess.DEVNULL).stdout.decode()
        return {json.loads(l)["seed"]: l for l in out.splitlines() if l.startswith("{") and '"agg"' not in l}
    a = lines(["--batch", "5000", str(n), "--cpu", "1", "--detail", str(10 ** 9)])
    # second pass: two processes, interleaved seeds, other CPUs, reversed halves => different heap history per seed
    b = lines(["--batch", "5000", str((n + 1) // 2), "--stride", "2", "--cpu", "9", "--detail", str(10 ** 9)])
    b.update(lines(["--batch", "5001", str(n // 2), "--stride", "2", "--cpu", "12", "--detail", str(10 ** 9)]))
    diff = [s for s in a if a[s] != b.get(s)]
    report["dsim"][h] = {"seeds": len(a), "diverging": len(diff), "examples": diff[:3]}
    print(h, report["dsim"][h], flush=True)
exe, _ = psim.build_simsouffle()
bad = 0
for i in range(M):
    w = P.gen_workload("c03", 424200 + i, "quick")
    w.materialise()
    c = P.mk_cases_default(1)(w)[0]
    r1 = psim.run_case(exe, c, keep=True)
    r2 = psim.run_case(exe, c, keep=True)
    same = r1["stats"].get("hash") == r2["stats"].get("hash") and r1["outputs"] == r2["outputs"] and r1["stats"].get("steps") == r2["stats"].get("steps")
    if not same:
        bad += 1
        print("psim divergence", c.key(), r1["stats"].get("hash"), r2["stats"].get("hash"))
    psim.cleanup(r1)
    psim.cleanup(r2)
report["psim"] = {"cases": M, "diverging": bad}
print(json.dumps(report, indent=1))
json.dump(report, open(os.path.join(VERIF, "tools", "determinism_last.json"), "w"), indent=1)
sys.exit(1 if bad or any(v["diverging"] for v in report["dsim"].values()) else 0)

#!/bin/bash
# try_seeded.sh <seeded-dir> [budget-seconds] — applies seeded/<dir>/patch.diff to a scratch worktree and runs the quick check of
# the property named in meta.json against it.  Prints the check's verdict lines; the worktree is removed afterwards.
D=$1; B=${2:-}
PROP=$(python3 -c "import json,sys; print(json.load(open('$D/meta.json'))['property'])")
[ -n "$B" ] && export VERIF_BUDGET_S=$B
cd /verif && tools/with_mutant.sh $(realpath $D/patch.diff) ./check $PROP --tier quick

#!/bin/bash
# runs every registered check in the thorough tier, one after the other; prints one line per check
cd "$(dirname "$0")/.."
for id in ${VERIF_SWEEP_IDS:-C30 C29 C31 C27 C28 C26 C25 C22 C10 C11 C20 C21 C03}; do
  s=$(date +%s)
  ./check $id --tier thorough > thorough_$id.log 2>&1
  echo "$id rc=$? $(( $(date +%s) - s ))s $(grep -c VIOLATION thorough_$id.log) violations"
done

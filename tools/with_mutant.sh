#!/bin/bash
# with_mutant.sh <patch-file|-> <command...>   — runs <command> with VERIF_REPO pointing at a scratch worktree of /repo
# that has the patch applied (patch on stdin with '-'), then removes the worktree and its build output.
set -e
PATCH=$1; shift
SLOT=${VERIF_MUT_SLOT:-a}
WT=/var/tmp/verif-mut-$SLOT   # fixed path: ccache hits for every unchanged translation unit
git -C /repo worktree remove --force $WT >/dev/null 2>&1 || true; rm -rf $WT
git -C /repo worktree add -q --detach $WT HEAD
trap 'git -C /repo worktree remove --force $WT >/dev/null 2>&1; rm -rf $WT' EXIT
if [ "$PATCH" = "-" ]; then cat > $WT/.mut.diff; PATCH=$WT/.mut.diff; fi
# seeded patches may have been written against a slightly older HEAD (before the probe hooks): fall back to fuzzy application
git -C $WT apply $PATCH 2>/dev/null || git -C $WT apply -C1 --recount $PATCH 2>/dev/null || (cd $WT && patch -p1 -F3 --no-backup-if-mismatch < $PATCH) || { echo "patch does not apply"; exit 3; }
git -C $WT diff --stat | tail -1
export VERIF_REPO=$WT VERIF_BUILD=$WT/_vbuild
# evidence and replay files of runs against a mutated tree never land in the committed directories
export VERIF_EVIDENCE_DIR=/var/tmp/verif-mut-evidence-$SLOT VERIF_FINDINGS_DIR=/var/tmp/verif-mut-findings-$SLOT
"$@"

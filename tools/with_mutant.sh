#!/bin/bash
# with_mutant.sh <patch-file|-> <command...>   — runs <command> with VERIF_REPO pointing at a scratch worktree of /repo
# that has the patch applied (patch on stdin with '-'), then removes the worktree and its build output.
set -e
PATCH=$1; shift
SLOT=${VERIF_MUT_SLOT:-a}
WT=/var/tmp/verif-mut-$SLOT   # fixed path: ccache hits for every unchanged translation unit
git -C /repo worktree remove --force $WT >/dev/null 2>&1 || true; rm -rf $WT
git -C /repo worktree add -q --detach $WT HEAD
trap 'git -C /repo worktree remove --force $WT >/dev/null 2>&1; rm -rf $WT' EXIT
if [ "$PATCH" = "-" ]; then git -C $WT apply -; else git -C $WT apply $PATCH; fi
git -C $WT diff --stat | tail -1
export VERIF_REPO=$WT VERIF_BUILD=$WT/_vbuild
"$@"

#!/usr/bin/env python3
"""Regenerates seeded/README.md from the meta.json files."""
import glob, json, os
root = os.path.join(os.path.dirname(os.path.dirname(os.path.abspath(__file__))), "seeded")
rows = []
for m in sorted(glob.glob(os.path.join(root, "*", "meta.json"))):
    j = json.load(open(m))
    d = os.path.basename(os.path.dirname(m))
    det = j.get("detected_by", {})
    rows.append("| `%s` | %s | %s | %s | %s | %s |" % (d, j.get("property"), j.get("change", "").replace("|", "/"), j.get("needs", "").replace("|", "/"),
                                                  det.get("result", "").replace("|", "/"), "yes" if det.get("strengthening_needed") else "no"))
out = ["# Seeded defects", "",
       "Changes to souffle-lang/souffle that break one of the listed properties while compiling and passing the existing tests.",
       "They were written by independent sub-agents that saw only the property text (never /verif), then confirmed here in scratch",
       "worktrees. None of them is ever committed to /repo; apply with `tools/try_seeded.sh seeded/<dir> [budget-seconds]`.", "",
       "| directory | property | change | needs, in order to manifest | what the check reports | check had to be strengthened |",
       "|---|---|---|---|---|---|"] + rows + [""]
open(os.path.join(root, "README.md"), "w").write("\n".join(out))
print("\n".join(out))

// simrt — deterministic serialising scheduler for real pthreads.
//
// Code under test is compiled with `-fopenmp -fsanitize=thread` but linked
// against this runtime instead of libgomp/libtsan: every atomic, every OpenMP
// runtime call and every blocking pthread primitive lands here and becomes a
// schedule point.  Exactly one task runs at a time; a PRNG seeded from one
// integer decides who runs next.  See /verif/DESIGN.md §2.
#pragma once
#include <cstdint>
#include <functional>
#include <string>
#include <vector>

namespace sim {

enum Strategy : int { ST_RW = 0, ST_PCT = 1, ST_BURST = 2, ST_STALL = 3, ST_SEQ = 4, ST_REPLAY = 5, ST_COUNT = 6 };
const char* strategy_name(int s);

// kinds of schedule point (folded into the event hash)
enum Kind : int {
    K_ATOMIC_LOAD = 1, K_ATOMIC_STORE, K_ATOMIC_RMW, K_ATOMIC_CAS, K_FENCE, K_PLAIN, K_VOLATILE,
    K_LOCK, K_TRYLOCK, K_UNLOCK, K_RDLOCK, K_WRLOCK, K_COND_WAIT, K_COND_SIGNAL, K_YIELD, K_SPIN,
    K_FORK, K_JOIN, K_CHUNK, K_BARRIER, K_SINGLE, K_CRITICAL, K_SLEEP, K_CLOCK, K_SPAWN, K_EXIT, K_USER,
    K_COUNT
};

enum Fault : int { F_WEAK_CAS = 0, F_TRYLOCK, F_TEAM_SHRINK, F_CHUNK_ORDER, F_TIMER_EARLY, F_LATE_START, F_COUNT };
const char* fault_name(int f);

enum Verdict : int { V_OK = 0, V_DEADLOCK = 1, V_LIVELOCK = 2, V_BUDGET = 3 };

struct Decision {
    uint64_t step;
    uint32_t rank;  // index into the sorted list of enabled tasks, taken modulo its size
};

struct RunCfg {
    uint64_t seed = 0;
    int strategy = -1;            // -1: drawn from the seed
    int rw_shift = -1;            // rw: switch probability 2^-rw_shift (-1: drawn)
    int pct_depth = -1;           // pct: number of priority change points (-1: drawn)
    uint64_t pct_est_steps = 0;   // pct: horizon over which change points are placed (0: drawn log-uniformly)
    int plain_period = -1;        // plain-access sampling period; 0 = never; -1: drawn from {0,0,64,8,1}
    uint32_t fault_mask = 0;      // bit per Fault kind that may fire
    uint32_t fault_rate_shift = 5;  // each enabled fault fires with probability 2^-shift at its site
    uint64_t step_budget = 50ull * 1000 * 1000;
    uint64_t tick_ns = 1000;      // simulated nanoseconds per schedule step
    int omp_threads = 4;          // default team size
    const std::vector<Decision>* replay = nullptr;  // strategy ST_REPLAY
};

struct RunStats {
    uint64_t steps = 0, switches = 0, preemptions = 0, hash = 0, sim_ns = 0;
    uint64_t kinds[K_COUNT] = {};
    uint64_t faults[F_COUNT] = {};
    uint64_t regions = 0, max_tasks = 0, spin_yields = 0;
    int strategy = 0, rw_shift = 0, pct_depth = 0, plain_period = 0;
    int verdict = V_OK;
    std::string verdict_msg;
    std::vector<Decision> decisions;               // every switch actually taken
    std::vector<std::pair<std::string, uint64_t>> probes;  // SOUFFLE_VERIF_PROBE counters
};

// ---- run control (harness side; call from the main thread only) ----
void run_begin(const RunCfg& cfg);
RunStats run_end();
bool active();

// Run body(0..n-1) as n simulated tasks; returns when all have finished.
// Outside of parallel() only one task exists and nothing is scheduled.
void parallel(int n, const std::function<void(int)>& body);

// seeded streams (independent of schedule decisions)
uint64_t rnd();                 // workload stream
uint64_t rnd(uint64_t n);       // uniform in [0,n)
uint64_t splitmix(uint64_t& s);

// fold a harness-level observation (an operation's result) into the event hash
void note(uint64_t v);
// global event sequence number (for invoke/return stamps); advancing
uint64_t stamp();
uint64_t steps();
int task_id();  // 0 = main

// called after every schedule step by the task that just made the step, with
// preemption disabled (the caller sees a quiescent, serialised state)
void set_step_hook(void (*fn)(void*), void* arg);

// task-local non-preemptible section (oracle bookkeeping that must be atomic with an operation)
void nopreempt_begin();
void nopreempt_end();

// called when a verdict (deadlock/livelock/budget) ends the run; must not return
void set_abort_handler(void (*fn)(int verdict, const char* msg));

void probe(const char* name);
void set_livelock_limit(uint64_t steps);
// writes the switches taken so far ("step rank" per line); async-signal-unsafe but used only on the way to _exit
void dump_decisions(const char* path);

}  // namespace sim

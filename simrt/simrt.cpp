// simrt — see simrt.h and /verif/DESIGN.md §2.
// Compiled WITHOUT -fsanitize=thread / -fopenmp:  g++ -O2 -g -std=c++17 -c simrt.cpp
#ifndef _GNU_SOURCE
#define _GNU_SOURCE
#endif
#include "simrt.h"

#include <algorithm>
#include <cerrno>
#include <climits>
#include <cstdarg>
#include <cstdio>
#include <cstdlib>
#include <cstring>
#include <dlfcn.h>
#include <map>
#include <pthread.h>
#include <sched.h>
#include <semaphore.h>
#include <sys/resource.h>
#include <sys/time.h>
#include <time.h>
#include <unistd.h>

namespace sim {

// ------------------------------------------------------------------ real symbols
typedef int (*mutex_fn)(pthread_mutex_t*);
typedef int (*rwlock_fn)(pthread_rwlock_t*);
static mutex_fn real_mutex_lock, real_mutex_trylock, real_mutex_unlock;
static rwlock_fn real_rw_tryrd, real_rw_trywr, real_rw_unlock, real_rw_rd, real_rw_wr;
static int (*real_create)(pthread_t*, const pthread_attr_t*, void* (*)(void*), void*);
static int (*real_join)(pthread_t, void**);
static int (*real_detach)(pthread_t);
static int (*real_cond_wait)(pthread_cond_t*, pthread_mutex_t*);
static int (*real_cond_timedwait)(pthread_cond_t*, pthread_mutex_t*, const struct timespec*);
static int (*real_cond_clockwait)(pthread_cond_t*, pthread_mutex_t*, clockid_t, const struct timespec*);
static int (*real_cond_signal)(pthread_cond_t*);
static int (*real_cond_broadcast)(pthread_cond_t*);
static int (*real_guard_acquire)(void*);
static void (*real_guard_release)(void*);
static void (*real_guard_abort)(void*);
static int (*real_clock_gettime)(clockid_t, struct timespec*);
static int (*real_sched_yield)();
static int (*real_nanosleep)(const struct timespec*, struct timespec*);
static int (*real_getrusage)(int, struct rusage*);
static bool g_resolved = false;
static bool g_resolving = false;

static void resolve() {
    if (g_resolved || g_resolving) return;
    g_resolving = true;
#define R(var, name) var = (decltype(var))dlsym(RTLD_NEXT, name)
    R(real_mutex_lock, "pthread_mutex_lock");
    R(real_mutex_trylock, "pthread_mutex_trylock");
    R(real_mutex_unlock, "pthread_mutex_unlock");
    R(real_rw_tryrd, "pthread_rwlock_tryrdlock");
    R(real_rw_trywr, "pthread_rwlock_trywrlock");
    R(real_rw_unlock, "pthread_rwlock_unlock");
    R(real_rw_rd, "pthread_rwlock_rdlock");
    R(real_rw_wr, "pthread_rwlock_wrlock");
    R(real_create, "pthread_create");
    R(real_join, "pthread_join");
    R(real_detach, "pthread_detach");
    real_cond_wait = (decltype(real_cond_wait))dlvsym(RTLD_NEXT, "pthread_cond_wait", "GLIBC_2.3.2");
    real_cond_timedwait = (decltype(real_cond_timedwait))dlvsym(RTLD_NEXT, "pthread_cond_timedwait", "GLIBC_2.3.2");
    R(real_cond_clockwait, "pthread_cond_clockwait");
    real_cond_signal = (decltype(real_cond_signal))dlvsym(RTLD_NEXT, "pthread_cond_signal", "GLIBC_2.3.2");
    real_cond_broadcast = (decltype(real_cond_broadcast))dlvsym(RTLD_NEXT, "pthread_cond_broadcast", "GLIBC_2.3.2");
    R(real_guard_acquire, "__cxa_guard_acquire");
    R(real_guard_release, "__cxa_guard_release");
    R(real_guard_abort, "__cxa_guard_abort");
    R(real_clock_gettime, "clock_gettime");
    R(real_sched_yield, "sched_yield");
    R(real_nanosleep, "nanosleep");
    R(real_getrusage, "getrusage");
#undef R
    g_resolved = true;
    g_resolving = false;
}

// ------------------------------------------------------------------ PRNG
uint64_t splitmix(uint64_t& s) {
    uint64_t z = (s += 0x9e3779b97f4a7c15ull);
    z = (z ^ (z >> 30)) * 0xbf58476d1ce4e5b9ull;
    z = (z ^ (z >> 27)) * 0x94d049bb133111ebull;
    return z ^ (z >> 31);
}
struct Rng {
    uint64_t s = 1;
    void seed(uint64_t v) { s = v; (void)splitmix(s); }
    uint64_t next() { return splitmix(s); }
    uint64_t below(uint64_t n) { return n ? next() % n : 0; }
    bool coin_shift(unsigned sh) { return (next() & ((1ull << sh) - 1)) == 0; }
};

// ------------------------------------------------------------------ tasks
enum State { S_FREE = 0, S_RUNNABLE, S_BLOCKED, S_SLEEPING, S_DONE };

struct WorkShare {
    bool init = false;
    bool is_ull = false;
    long next = 0, end = 0, incr = 1, chunk = 1;
    unsigned long long unext = 0, uend = 0, uincr = 1, uchunk = 1;
    bool up = true;
    std::vector<std::pair<long, long>> chunks;  // materialised (possibly permuted) chunk list
    size_t chunk_pos = 0;
    bool use_list = false;
    bool single_taken = false;
};

struct Task;
struct Team {
    int n = 1;
    std::vector<Task*> members;
    std::vector<WorkShare> ws;
    int barrier_count = 0;
    uint64_t barrier_gen = 0;
    Team* parent = nullptr;
};

constexpr int MAXT = 96;
struct Task {
    int id = 0;
    pthread_t th{};
    bool has_thread = false;
    sem_t sem;
    int state = S_FREE;
    const void* wait_obj = nullptr;
    uint64_t deadline = 0;
    bool timed_out = false;
    bool spinning = false;
    // recent (address, value) observations made without anybody writing in between: a spin loop may poll several
    // locations in turn (e.g. `while (root == nullptr) { if (!lock.try_start_write()) continue; ...}`)
    const void* spin_addr[4] = {nullptr, nullptr, nullptr, nullptr};
    uint64_t spin_val[4] = {0, 0, 0, 0};
    int spin_pos = 0;
    uint64_t spin_epoch = 0;
    int spin_cnt = 0;
    int nopreempt = 0;
    int in_rt = 0;  // inside the runtime: instrumentation callbacks coming from shared template code must not re-enter
    int64_t prio = 0;
    std::function<void()> fn;
    Team* team = nullptr;
    int team_tid = 0;
    size_t ws_idx = 0;
    uint64_t plain_ctr = 0;
    bool external = false;  // created through pthread_create (joinable by pthread_join)
    bool detached = false;
    void* retval = nullptr;
    uint64_t start_delay = 0;  // F_LATE_START: not schedulable before this step
};

static Task g_tasks[MAXT] __attribute__((init_priority(101)));
static thread_local Task* t_self = nullptr;
struct InRt {
    Task* t;
    explicit InRt(Task* t) : t(t) {
        if (t) t->in_rt++;
    }
    ~InRt() {
        if (t) t->in_rt--;
    }
};
static Task* g_cur = nullptr;
static int g_live = 0;  // tasks in RUNNABLE/BLOCKED/SLEEPING
static int g_hi = 1;    // highest slot index in use + 1
static bool g_inited = false;

// ------------------------------------------------------------------ run state
static RunCfg g_cfg;
static Rng g_rng_sched, g_rng_work, g_rng_fault, g_rng_aux;
static uint64_t g_step = 0, g_switches = 0, g_preempt = 0, g_hash = 0, g_simns = 0, g_stamp = 0;
static uint64_t g_kinds[K_COUNT];
static uint64_t g_faults[F_COUNT];
static uint64_t g_regions = 0, g_maxtasks = 1, g_spin_yields = 0;
static int g_strategy = ST_RW, g_rw_shift = 2, g_pct_depth = 1, g_plain_period = 0;
static std::vector<uint64_t> g_pct_points __attribute__((init_priority(101)));
static size_t g_pct_next = 0;
static int64_t g_pct_low = 0;
static int64_t g_burst_left = 0;
static uint64_t g_burst_mean = 20;
static uint64_t g_stall_until = 0, g_stall_next = 0;
static int g_stall_victim = -1;
static uint64_t g_stall_rank = 0;
static std::vector<Decision> g_decisions __attribute__((init_priority(101)));
static const std::vector<Decision>* g_replay = nullptr;
static size_t g_replay_pos = 0;
static uint64_t g_write_epoch = 1;
static int g_nspinning = 0;
static uint64_t g_noprogress = 0;
static uint64_t g_livelock_limit = 400000;
static void (*g_step_hook)(void*) = nullptr;
static void* g_step_hook_arg = nullptr;
static void (*g_abort_handler)(int, const char*) = nullptr;
static int g_omp_max = 4;
static bool g_record = true;
static std::map<const char*, uint64_t> g_probe_ptr __attribute__((init_priority(101)));
static int g_verdict = V_OK;
static bool g_aborting = false;
static std::string g_verdict_msg __attribute__((init_priority(101)));

const char* strategy_name(int s) {
    static const char* n[] = {"rw", "pct", "burst", "stall", "seq", "replay"};
    return (s >= 0 && s < ST_COUNT) ? n[s] : "?";
}
const char* fault_name(int f) {
    static const char* n[] = {"weak_cas_spurious", "trylock_spurious", "team_shrink", "chunk_order", "timer_early", "late_start"};
    return (f >= 0 && f < F_COUNT) ? n[f] : "?";
}

static inline void fold(uint64_t v) {
    g_hash ^= v + 0x9e3779b97f4a7c15ull + (g_hash << 6) + (g_hash >> 2);
    g_hash *= 0x100000001b3ull;
}

static void wait_sem(Task* t) {
    while (sem_wait(&t->sem) != 0) {
    }
}

static void write_psim_stats();

[[noreturn]] static void abort_run(int verdict, const char* fmt, ...) {
    InRt rt_guard(t_self);
    char buf[512];
    va_list ap;
    va_start(ap, fmt);
    vsnprintf(buf, sizeof buf, fmt, ap);
    va_end(ap);
    g_verdict = verdict;
    g_verdict_msg = buf;
    g_aborting = true;  // no further scheduling: the handler runs on this thread to the end
    if (g_abort_handler) g_abort_handler(verdict, buf);
    fprintf(stderr, "simrt: run aborted: verdict=%d %s (seed=%llu step=%llu)\n", verdict, buf,
            (unsigned long long)g_cfg.seed, (unsigned long long)g_step);
    write_psim_stats();
    _exit(86);
}

static bool fault(int f) {
    if (!(g_cfg.fault_mask & (1u << f))) return false;
    // per-site firing probability 2^-shift; structural faults (team, start, timer, chunk order) fire more often
    static const unsigned dflt[F_COUNT] = {5, 5, 3, 1, 2, 2};
    unsigned sh = (f == F_WEAK_CAS || f == F_TRYLOCK) ? g_cfg.fault_rate_shift : dflt[f];
    if (!g_rng_fault.coin_shift(sh)) return false;
    g_faults[f]++;
    fold(0xfa000 + f);
    return true;
}

static inline bool enabled(Task* t) {
    return t->state == S_RUNNABLE && t->start_delay <= g_step;
}

static void clear_spins() {
    if (!g_nspinning) return;
    for (int i = 0; i < g_hi; i++) {
        g_tasks[i].spinning = false;
        g_tasks[i].spin_cnt = 0;
    }
    g_nspinning = 0;
}
static inline void progress() {
    g_noprogress = 0;
}
static inline void effective_write() {
    g_write_epoch++;
    clear_spins();
    g_noprogress = 0;
}

// wake timed sleepers whose deadline has passed
static void wake_sleepers() {
    for (int i = 0; i < g_hi; i++) {
        Task* t = &g_tasks[i];
        if ((t->state == S_SLEEPING || (t->state == S_BLOCKED && t->deadline)) && t->deadline <= g_simns) {
            t->state = S_RUNNABLE;
            t->timed_out = true;
            t->deadline = 0;
        }
    }
}

// choose the next task to run.  `me` may or may not be enabled.
static Task* pick(Task* me) {
    Task* en[MAXT];
    int n = 0, nns = 0;
    for (;;) {
        n = 0;
        for (int i = 0; i < g_hi; i++)
            if (enabled(&g_tasks[i])) en[n++] = &g_tasks[i];
        if (n) break;
        // nothing enabled: late starters first, then jump the clock to the earliest sleeper
        uint64_t best_delay = UINT64_MAX;
        for (int i = 0; i < g_hi; i++)
            if (g_tasks[i].state == S_RUNNABLE) best_delay = std::min(best_delay, g_tasks[i].start_delay);
        if (best_delay != UINT64_MAX) {
            for (int i = 0; i < g_hi; i++)
                if (g_tasks[i].state == S_RUNNABLE) g_tasks[i].start_delay = 0;
            continue;
        }
        uint64_t best = UINT64_MAX;
        for (int i = 0; i < g_hi; i++) {
            Task* t = &g_tasks[i];
            if ((t->state == S_SLEEPING || t->state == S_BLOCKED) && t->deadline) best = std::min(best, t->deadline);
        }
        if (best == UINT64_MAX) {
            int nb = 0;
            char list[256];
            size_t o = 0;
            list[0] = 0;
            for (int i = 0; i < g_hi; i++)
                if (g_tasks[i].state == S_BLOCKED) {
                    nb++;
                    if (o < sizeof list - 24) o += snprintf(list + o, sizeof list - o, " t%d@%p", i, g_tasks[i].wait_obj);
                }
            abort_run(V_DEADLOCK, "deadlock: %d task(s) blocked, none runnable:%s", nb, list);
        }
        if (best > g_simns) g_simns = best;
        wake_sleepers();
    }
    // prefer tasks that are not flagged as spinning
    Task* ns[MAXT];
    for (int i = 0; i < n; i++)
        if (!en[i]->spinning) ns[nns++] = en[i];
    Task** pool = nns ? ns : en;
    int pn = nns ? nns : n;
    bool me_in_pool = false;
    for (int i = 0; i < pn; i++)
        if (pool[i] == me) me_in_pool = true;

    Task* next = nullptr;
    if (g_strategy == ST_REPLAY) {
        while (g_replay && g_replay_pos < g_replay->size() && (*g_replay)[g_replay_pos].step < g_step) g_replay_pos++;
        if (g_replay && g_replay_pos < g_replay->size() && (*g_replay)[g_replay_pos].step == g_step) {
            next = en[(*g_replay)[g_replay_pos].rank % n];
            g_replay_pos++;
        } else if (me && enabled(me) && !me->spinning) {
            next = me;
        } else {
            // off the recorded schedule (shrinking, or a different build): never keep a spinning task running
            next = nns ? pool[0] : pool[g_rng_sched.below(pn)];
        }
        return next;
    }
    if (pn == 1) return pool[0];
    if (nns == 0) {
        // every enabled task is flagged as spinning (the flag is only a heuristic and may be stale on a task that is
        // doing plain work while holding a lock): pick uniformly so that whoever can make progress eventually runs
        return pool[g_rng_sched.below(pn)];
    }
    switch (g_strategy) {
        case ST_RW: {
            if (me_in_pool && !g_rng_sched.coin_shift(g_rw_shift)) return me;
            // switch: uniformly among the others
            int k = (int)g_rng_sched.below(me_in_pool ? pn - 1 : pn);
            for (int i = 0; i < pn; i++) {
                if (pool[i] == me) continue;
                if (k-- == 0) return pool[i];
            }
            return pool[0];
        }
        case ST_PCT: {
            while (g_pct_next < g_pct_points.size() && g_pct_points[g_pct_next] <= g_step) {
                if (me) me->prio = --g_pct_low;
                g_pct_next++;
            }
            next = pool[0];
            for (int i = 1; i < pn; i++)
                if (pool[i]->prio > next->prio) next = pool[i];
            return next;
        }
        case ST_BURST: {
            if (me_in_pool && --g_burst_left > 0) return me;
            // geometric quantum with the run's mean
            g_burst_left = 1;
            while (g_burst_left < (int64_t)(g_burst_mean * 8) && g_rng_sched.below(g_burst_mean) != 0) g_burst_left++;
            // round robin: next id after me
            int myid = me ? me->id : -1;
            for (int i = 0; i < pn; i++)
                if (pool[i]->id > myid) return pool[i];
            return pool[0];
        }
        case ST_STALL: {
            if (g_step >= g_stall_next) {
                // open a new stall window for a (possibly different) victim
                g_stall_victim = en[g_stall_rank % n]->id;
                g_stall_rank = g_rng_sched.next();
                uint64_t len = 1ull << (3 + g_rng_sched.below(11));  // 8 .. 8192 steps, log-uniform
                g_stall_until = g_step + len;
                g_stall_next = g_stall_until + g_rng_sched.below(len + 1);
            }
            Task* cand[MAXT];
            int cn = 0;
            for (int i = 0; i < pn; i++)
                if (!(g_step < g_stall_until && pool[i]->id == g_stall_victim)) cand[cn++] = pool[i];
            if (cn == 0) {
                cand[0] = pool[0];
                cn = 1;
            }
            bool me_in = false;
            for (int i = 0; i < cn; i++)
                if (cand[i] == me) me_in = true;
            if (me_in && !g_rng_sched.coin_shift(3)) return me;
            return cand[g_rng_sched.below(cn)];
        }
        case ST_SEQ:
        default: {
            if (me_in_pool) return me;
            return pool[0];
        }
    }
}

// hand the token to `next`; the caller parks unless it is finished
static void handoff(Task* me, Task* next, bool me_finished) {
    if (next == me) return;
    if (g_record) {
        // rank of next among enabled tasks sorted by id
        uint32_t r = 0;
        for (int i = 0; i < next->id; i++)
            if (enabled(&g_tasks[i])) r++;
        g_decisions.push_back(Decision{g_step, r});
    }
    g_switches++;
    fold(0x5700000 + next->id);
    g_cur = next;
    sem_post(&next->sem);
    if (!me_finished) wait_sem(me);
}

static inline void account(Task* me, int kind) {
    g_step++;
    g_simns += g_cfg.tick_ns;
    g_kinds[kind]++;
    fold(((uint64_t)me->id << 8) | (uint64_t)kind);
    if (g_step > g_cfg.step_budget) abort_run(V_BUDGET, "step budget %llu exceeded", (unsigned long long)g_cfg.step_budget);
    if (++g_noprogress > g_livelock_limit) {
        abort_run(V_LIVELOCK, "no progress for %llu steps (spinning tasks: %d of %d live)", (unsigned long long)g_noprogress, g_nspinning, g_live);
    }
}

// the schedule point
static void sched_point(Task* me, int kind) {
    InRt rt_guard(me);
    account(me, kind);
    wake_sleepers();
    if (g_step_hook) {
        me->nopreempt++;
        g_step_hook(g_step_hook_arg);
        me->nopreempt--;
    }
    Task* next = pick(me);
    if (next != me) {
        if (enabled(me)) g_preempt++;
        handoff(me, next, false);
    }
}

static inline void sp(int kind) {
    Task* me = t_self;
    if (me == nullptr || g_live <= 1 || me->nopreempt || g_aborting) return;
    sched_point(me, kind);
}

// block the calling task until somebody marks it runnable
static void block(Task* me, int kind, const void* obj, uint64_t deadline_ns) {
    InRt rt_guard(me);
    me->state = deadline_ns && !obj ? S_SLEEPING : S_BLOCKED;
    me->wait_obj = obj;
    me->deadline = deadline_ns;
    me->timed_out = false;
    account(me, kind);
    Task* next = pick(me);
    handoff(me, next, false);
    me->wait_obj = nullptr;
}

static void wake_all(const void* obj) {
    for (int i = 0; i < g_hi; i++) {
        Task* t = &g_tasks[i];
        if (t->state == S_BLOCKED && t->wait_obj == obj) {
            t->state = S_RUNNABLE;
            t->deadline = 0;
        }
    }
}

// mark the running task as spinning and give others a chance
static void spin_yield(Task* me) {
    if (g_live <= 1 || me->nopreempt || g_aborting) return;
    if (!me->spinning) {
        me->spinning = true;
        g_nspinning++;
    }
    g_spin_yields++;
    sched_point(me, K_SPIN);
}

// a single remaining task spinning on an atomic that nobody can change any more never terminates
static const void* g_solo_addr = nullptr;
static uint64_t g_solo_val = 0, g_solo_cnt = 0;
static uint64_t g_solo_limit = 20000000;
static inline void solo_observe(const void* addr, uint64_t val) {
    if (g_solo_addr == addr && g_solo_val == val) {
        if (++g_solo_cnt > g_solo_limit && !g_aborting)
            abort_run(V_LIVELOCK, "a single task re-read the same atomic value %llu times with nobody left to change it", (unsigned long long)g_solo_cnt);
    } else {
        g_solo_addr = addr;
        g_solo_val = val;
        g_solo_cnt = 0;
    }
}

// observation made by an atomic read (or an RMW that did not change memory)
static inline void spin_observe(Task* me, const void* addr, uint64_t val) {
    if (me->spin_epoch != g_write_epoch) {
        me->spin_epoch = g_write_epoch;
        me->spin_cnt = 0;
        me->spin_pos = 0;
        for (int i = 0; i < 4; i++) me->spin_addr[i] = nullptr;
    }
    for (int i = 0; i < 4; i++)
        if (me->spin_addr[i] == addr && me->spin_val[i] == val) {
            if (++me->spin_cnt >= 3) spin_yield(me);
            return;
        }
    me->spin_addr[me->spin_pos] = addr;
    me->spin_val[me->spin_pos] = val;
    me->spin_pos = (me->spin_pos + 1) & 3;
    me->spin_cnt = 0;
}

// ------------------------------------------------------------------ thread pool
static void* pool_main(void* arg) {
    Task* me = (Task*)arg;
    t_self = me;
    for (;;) {
        wait_sem(me);  // token: run the assigned function
        me->in_rt = 0;
        me->fn();
        me->in_rt = 1;
        me->fn = nullptr;
        // finished
        me->state = S_DONE;
        g_live--;
        progress();
        wake_all(me);  // joiners
        account(me, K_EXIT);
        if (me->external && me->detached) me->state = S_FREE;
        Task* next = pick(me);
        handoff(me, next, true);
    }
    return nullptr;
}

static void ensure_thread(Task* t) {
    if (t->has_thread) return;
    sem_init(&t->sem, 0, 0);
    pthread_attr_t at;
    pthread_attr_init(&at);
    pthread_attr_setstacksize(&at, 16u << 20);
    resolve();
    if (real_create(&t->th, &at, pool_main, t) != 0) {
        fprintf(stderr, "simrt: pthread_create failed\n");
        _exit(87);
    }
    pthread_attr_destroy(&at);
    t->has_thread = true;
}

static void init_once() {
    if (g_inited) return;
    g_inited = true;
    resolve();
    Task* m = &g_tasks[0];
    m->id = 0;
    sem_init(&m->sem, 0, 0);
    m->state = S_RUNNABLE;
    m->has_thread = true;
    m->th = pthread_self();
    t_self = m;
    g_cur = m;
    g_live = 1;
    g_hi = 1;
    for (int i = 0; i < MAXT; i++) g_tasks[i].id = i;
}

static Task* spawn(std::function<void()> fn) {
    InRt rt_guard(t_self);
    int slot = -1;
    for (int i = 1; i < MAXT; i++)
        if (g_tasks[i].state == S_FREE) {
            slot = i;
            break;
        }
    if (slot < 0) {
        fprintf(stderr, "simrt: too many tasks\n");
        _exit(87);
    }
    Task* t = &g_tasks[slot];
    ensure_thread(t);
    t->fn = std::move(fn);
    t->state = S_RUNNABLE;
    t->wait_obj = nullptr;
    t->deadline = 0;
    t->spinning = false;
    t->spin_cnt = 0;
    t->spin_epoch = 0;
    t->nopreempt = 0;
    t->team = nullptr;
    t->team_tid = 0;
    t->ws_idx = 0;
    t->plain_ctr = 0;
    t->external = false;
    t->detached = false;
    t->retval = nullptr;
    t->start_delay = 0;
    t->prio = (int64_t)(1000000 + (g_rng_sched.next() >> 20));
    if (fault(F_LATE_START)) t->start_delay = g_step + 1 + g_rng_fault.below(5000);
    if (slot + 1 > g_hi) g_hi = slot + 1;
    g_live++;
    if ((uint64_t)g_live > g_maxtasks) g_maxtasks = g_live;
    g_kinds[K_SPAWN]++;
    return t;
}

static void join_task(Task* me, Task* t) {
    InRt rt_guard(me);
    while (t->state != S_DONE && t->state != S_FREE) block(me, K_JOIN, t, 0);
    t->state = S_FREE;
}

// ------------------------------------------------------------------ harness API
bool active() {
    return g_inited;
}
int task_id() {
    return t_self ? t_self->id : -1;
}
uint64_t rnd() {
    return g_rng_work.next();
}
uint64_t rnd(uint64_t n) {
    return g_rng_work.below(n);
}
void note(uint64_t v) {
    fold(0xa000000000ull ^ v);
    progress();
}
uint64_t stamp() {
    return ++g_stamp;
}
uint64_t steps() {
    return g_step;
}
void set_step_hook(void (*fn)(void*), void* arg) {
    g_step_hook = fn;
    g_step_hook_arg = arg;
}
void nopreempt_begin() {
    if (t_self) t_self->nopreempt++;
}
void nopreempt_end() {
    if (t_self) t_self->nopreempt--;
}
void set_abort_handler(void (*fn)(int, const char*)) {
    g_abort_handler = fn;
}
void probe(const char* name) {
    InRt rt_guard(t_self);
    g_probe_ptr[name]++;
}

void run_begin(const RunCfg& cfg) {
    init_once();
    g_cfg = cfg;
    uint64_t s = cfg.seed ^ 0x5eed5eed5eedull;
    g_rng_sched.seed(splitmix(s));
    g_rng_work.seed(splitmix(s));
    g_rng_fault.seed(splitmix(s));
    g_rng_aux.seed(splitmix(s));
    Rng knobs;
    knobs.seed(splitmix(s));
    g_step = g_switches = g_preempt = g_hash = g_simns = g_stamp = 0;
    memset(g_kinds, 0, sizeof g_kinds);
    memset(g_faults, 0, sizeof g_faults);
    g_regions = 0;
    g_maxtasks = 1;
    g_spin_yields = 0;
    g_decisions.clear();
    g_probe_ptr.clear();
    g_write_epoch = 1;
    g_nspinning = 0;
    g_noprogress = 0;
    g_solo_cnt = 0;
    g_solo_addr = nullptr;
    g_aborting = false;
    g_verdict = V_OK;
    g_verdict_msg.clear();
    g_omp_max = cfg.omp_threads;
    // knobs are always drawn (so that overriding one leaves the others unchanged)
    uint64_t k_strat = knobs.below(100), k_rw = knobs.below(4), k_pd = knobs.below(3), k_pl = knobs.below(5);
    uint64_t k_est = knobs.next(), k_burst = knobs.below(4);
    // strategy mix: rw 40, pct 25, burst 15, stall 15, seq 5
    int st = k_strat < 40 ? ST_RW : k_strat < 65 ? ST_PCT : k_strat < 80 ? ST_BURST : k_strat < 95 ? ST_STALL : ST_SEQ;
    g_strategy = cfg.strategy >= 0 ? cfg.strategy : st;
    static const int rwsh[4] = {1, 2, 4, 6};
    g_rw_shift = cfg.rw_shift >= 0 ? cfg.rw_shift : rwsh[k_rw];
    g_pct_depth = cfg.pct_depth >= 0 ? cfg.pct_depth : (int)k_pd + 1;
    static const int plp[5] = {0, 0, 64, 8, 1};
    g_plain_period = cfg.plain_period >= 0 ? cfg.plain_period : plp[k_pl];
    static const uint64_t bm[4] = {2, 8, 50, 200};
    g_burst_mean = bm[k_burst];
    g_burst_left = 0;
    g_stall_until = g_stall_next = 0;
    g_stall_victim = -1;
    g_stall_rank = k_est >> 7;
    g_pct_points.clear();
    g_pct_next = 0;
    g_pct_low = 0;
    if (g_strategy == ST_PCT) {
        uint64_t est = cfg.pct_est_steps;
        if (!est) {
            // log-uniform horizon between 2^6 and 2^20
            unsigned e = 6 + (unsigned)(k_est % 15);
            est = 1ull << e;
        }
        for (int i = 0; i < g_pct_depth; i++) g_pct_points.push_back(1 + g_rng_sched.below(est));
        std::sort(g_pct_points.begin(), g_pct_points.end());
    }
    g_replay = cfg.replay;
    g_replay_pos = 0;
    if (g_strategy == ST_REPLAY && !g_replay) g_strategy = ST_SEQ;
    g_tasks[0].prio = 1000000 + (int64_t)(g_rng_sched.next() >> 20);
    g_tasks[0].spinning = false;
    g_tasks[0].spin_cnt = 0;
    g_tasks[0].spin_epoch = 0;
    g_tasks[0].plain_ctr = 0;  // the main task takes part in OpenMP teams: its sampling phase must not leak between runs
    g_tasks[0].ws_idx = 0;
    g_tasks[0].team = nullptr;
    g_tasks[0].team_tid = 0;
    fold(cfg.seed);
}

RunStats run_end() {
    RunStats r;
    r.steps = g_step;
    r.switches = g_switches;
    r.preemptions = g_preempt;
    r.hash = g_hash;
    r.sim_ns = g_simns;
    memcpy(r.kinds, g_kinds, sizeof g_kinds);
    memcpy(r.faults, g_faults, sizeof g_faults);
    r.regions = g_regions;
    r.max_tasks = g_maxtasks;
    r.spin_yields = g_spin_yields;
    r.strategy = g_strategy;
    r.rw_shift = g_rw_shift;
    r.pct_depth = g_pct_depth;
    r.plain_period = g_plain_period;
    r.verdict = g_verdict;
    r.verdict_msg = g_verdict_msg;
    r.decisions = g_decisions;
    std::map<std::string, uint64_t> byname;
    for (auto& kv : g_probe_ptr) byname[kv.first] += kv.second;
    for (auto& kv : byname) r.probes.push_back(kv);
    g_step_hook = nullptr;
    return r;
}

void parallel(int n, const std::function<void(int)>& body) {
    InRt rt_guard(t_self);
    init_once();
    Task* me = t_self;
    g_regions++;
    std::vector<Task*> ts;
    for (int i = 0; i < n; i++) {
        ts.push_back(spawn([i, &body] { body(i); }));
    }
    for (Task* t : ts) join_task(me, t);
}

// ------------------------------------------------------------------ psim bootstrap (whole program)
static const char* g_stats_path = nullptr;
static const char* g_decisions_out = nullptr;
static std::vector<Decision> g_replay_store __attribute__((init_priority(101)));

static void write_psim_stats() {
    if (!g_stats_path) return;
    FILE* f = fopen(g_stats_path, "w");
    if (!f) return;
    fprintf(f, "{\"seed\":%llu,\"steps\":%llu,\"switches\":%llu,\"preemptions\":%llu,\"hash\":\"%016llx\",\"sim_ns\":%llu,",
            (unsigned long long)g_cfg.seed, (unsigned long long)g_step, (unsigned long long)g_switches,
            (unsigned long long)g_preempt, (unsigned long long)g_hash, (unsigned long long)g_simns);
    fprintf(f, "\"regions\":%llu,\"max_tasks\":%llu,\"spin_yields\":%llu,\"strategy\":\"%s\",\"rw_shift\":%d,\"pct_depth\":%d,\"plain_period\":%d,",
            (unsigned long long)g_regions, (unsigned long long)g_maxtasks, (unsigned long long)g_spin_yields,
            strategy_name(g_strategy), g_rw_shift, g_pct_depth, g_plain_period);
    fprintf(f, "\"verdict\":%d,\"verdict_msg\":\"", g_verdict);
    for (char c : g_verdict_msg) fputc((c == '"' || c == '\\' || (unsigned char)c < 32) ? ' ' : c, f);
    fprintf(f, "\",\"kinds\":[");
    for (int i = 0; i < K_COUNT; i++) fprintf(f, "%s%llu", i ? "," : "", (unsigned long long)g_kinds[i]);
    fprintf(f, "],\"faults\":{");
    for (int i = 0; i < F_COUNT; i++) fprintf(f, "%s\"%s\":%llu", i ? "," : "", fault_name(i), (unsigned long long)g_faults[i]);
    fprintf(f, "},\"probes\":{");
    std::map<std::string, uint64_t> byname;
    for (auto& kv : g_probe_ptr) byname[kv.first] += kv.second;
    bool first = true;
    for (auto& kv : byname) {
        fprintf(f, "%s\"%s\":%llu", first ? "" : ",", kv.first.c_str(), (unsigned long long)kv.second);
        first = false;
    }
    fprintf(f, "}}\n");
    fclose(f);
    if (g_decisions_out) {
        FILE* d = fopen(g_decisions_out, "w");
        if (d) {
            for (auto& x : g_decisions) fprintf(d, "%llu %u\n", (unsigned long long)x.step, x.rank);
            fclose(d);
        }
    }
}

static void psim_atexit() {
    write_psim_stats();
}

static long env_long(const char* n, long dflt) {
    const char* v = getenv(n);
    return (v && *v) ? strtol(v, nullptr, 0) : dflt;
}

__attribute__((constructor(102))) static void sim_ctor() {
    init_once();
    const char* seed = getenv("VERIF_SIM_SEED");
    if (!seed) return;  // dsim harnesses drive run_begin themselves
    RunCfg c;
    c.seed = strtoull(seed, nullptr, 0);
    c.strategy = (int)env_long("VERIF_SIM_STRATEGY", -1);
    c.rw_shift = (int)env_long("VERIF_SIM_RW_SHIFT", -1);
    c.pct_depth = (int)env_long("VERIF_SIM_PCT_DEPTH", -1);
    c.pct_est_steps = (uint64_t)env_long("VERIF_SIM_PCT_EST", 0);
    c.plain_period = (int)env_long("VERIF_SIM_PLAIN", -1);
    c.fault_mask = (uint32_t)env_long("VERIF_SIM_FAULTS", 0);
    c.fault_rate_shift = (uint32_t)env_long("VERIF_SIM_FAULT_SHIFT", 5);
    c.step_budget = (uint64_t)env_long("VERIF_SIM_BUDGET", 2000000000L);
    c.tick_ns = (uint64_t)env_long("VERIF_SIM_TICK_NS", 1000);
    c.omp_threads = (int)env_long("VERIF_SIM_OMP", 4);
    const char* rp = getenv("VERIF_SIM_REPLAY");
    if (rp && *rp) {
        FILE* f = fopen(rp, "r");
        unsigned long long a;
        unsigned b;
        if (f) {
            while (fscanf(f, "%llu %u", &a, &b) == 2) g_replay_store.push_back(Decision{a, b});
            fclose(f);
        }
        c.replay = &g_replay_store;
        c.strategy = ST_REPLAY;
    }
    g_livelock_limit = (uint64_t)env_long("VERIF_SIM_LIVELOCK", 50000000L);
    g_record = env_long("VERIF_SIM_RECORD", 1) != 0;
    run_begin(c);
    g_stats_path = getenv("VERIF_SIM_OUT");
    g_decisions_out = getenv("VERIF_SIM_DECISIONS");
    atexit(psim_atexit);
}

void dump_decisions(const char* path) {
    if (!path) return;
    FILE* d = fopen(path, "w");
    if (!d) return;
    for (auto& x : g_decisions) fprintf(d, "%llu %u\n", (unsigned long long)x.step, x.rank);
    fclose(d);
}

void set_livelock_limit(uint64_t n) {
    g_livelock_limit = n;
    g_solo_limit = n * 100;
}

// ------------------------------------------------------------------ simulated blocking primitives
static int sim_mutex_lock(pthread_mutex_t* m) {
    Task* me = t_self;
    if (!me || !g_inited) return real_mutex_lock(m);
    if (g_live <= 1) {
        return real_mutex_lock(m);
    }
    sp(K_LOCK);
    for (;;) {
        int rc = real_mutex_trylock(m);
        if (rc != EBUSY) {
            progress();
            return rc;
        }
        if (g_live <= 1) return real_mutex_lock(m);
        block(me, K_LOCK, m, 0);
    }
}

static int sim_mutex_trylock(pthread_mutex_t* m) {
    Task* me = t_self;
    if (!me || !g_inited || g_live <= 1) return real_mutex_trylock(m);
    sp(K_TRYLOCK);
    int rc;
    if (fault(F_TRYLOCK))
        rc = EBUSY;
    else
        rc = real_mutex_trylock(m);
    if (rc == EBUSY)
        spin_observe(me, m, EBUSY);
    else
        progress();
    return rc;
}

static int sim_mutex_unlock(pthread_mutex_t* m) {
    int rc = real_mutex_unlock(m);
    Task* me = t_self;
    if (!me || !g_inited || g_live <= 1) return rc;
    wake_all(m);
    effective_write();
    sp(K_UNLOCK);
    return rc;
}

static int sim_rw_lock(pthread_rwlock_t* l, bool wr) {
    Task* me = t_self;
    if (!me || !g_inited || g_live <= 1) return wr ? real_rw_wr(l) : real_rw_rd(l);
    sp(wr ? K_WRLOCK : K_RDLOCK);
    for (;;) {
        int rc = wr ? real_rw_trywr(l) : real_rw_tryrd(l);
        if (rc != EBUSY) {
            progress();
            return rc;
        }
        block(me, wr ? K_WRLOCK : K_RDLOCK, l, 0);
    }
}
static int sim_rw_unlock(pthread_rwlock_t* l) {
    int rc = real_rw_unlock(l);
    Task* me = t_self;
    if (!me || !g_inited || g_live <= 1) return rc;
    wake_all(l);
    effective_write();
    sp(K_UNLOCK);
    return rc;
}

// simulated clock: all clocks read base + g_simns
static const uint64_t CLOCK_BASE_S = 1700000000ull;
static uint64_t now_ns() {
    return g_simns;
}
static uint64_t abs_to_simns(const struct timespec* ts, clockid_t clk) {
    uint64_t t = (uint64_t)ts->tv_sec * 1000000000ull + (uint64_t)ts->tv_nsec;
    uint64_t base = (clk == CLOCK_REALTIME) ? CLOCK_BASE_S * 1000000000ull : 0;
    return t > base ? t - base : 0;
}

static int sim_cond_wait(pthread_cond_t* c, pthread_mutex_t* m, uint64_t deadline) {
    InRt rt_guard(t_self);
    Task* me = t_self;
    // release the mutex and enqueue atomically (no schedule point in between)
    real_mutex_unlock(m);
    wake_all(m);
    effective_write();
    if (deadline && fault(F_TIMER_EARLY)) {
        // spurious / early wake-up: wake at a random earlier instant
        uint64_t span = deadline > g_simns ? deadline - g_simns : 0;
        deadline = g_simns + 1 + g_rng_fault.below(span + 1);
    }
    if (deadline && deadline <= g_simns) deadline = g_simns + 1;
    block(me, K_COND_WAIT, c, deadline);
    bool to = me->timed_out;
    me->timed_out = false;
    // re-acquire
    for (;;) {
        int rc = real_mutex_trylock(m);
        if (rc != EBUSY) break;
        block(me, K_LOCK, m, 0);
    }
    return to ? ETIMEDOUT : 0;
}

static void sim_cond_wake(pthread_cond_t* c, bool all) {
    InRt rt_guard(t_self);
    Task* w[MAXT];
    int n = 0;
    for (int i = 0; i < g_hi; i++)
        if (g_tasks[i].state == S_BLOCKED && g_tasks[i].wait_obj == c) w[n++] = &g_tasks[i];
    if (!n) return;
    if (all) {
        for (int i = 0; i < n; i++) {
            w[i]->state = S_RUNNABLE;
            w[i]->deadline = 0;
        }
    } else {
        Task* t = w[g_rng_aux.below(n)];
        t->state = S_RUNNABLE;
        t->deadline = 0;
    }
    effective_write();
}

}  // namespace sim

using namespace sim;

// =================================================================== interposed libc / libstdc++ entry points
extern "C" {

void souffle_verif_probe(const char* name) {
    InRt rt_guard(t_self);
    g_probe_ptr[name]++;
}

int pthread_mutex_lock(pthread_mutex_t* m) {
    if (!g_resolved) {
        resolve();
        if (!real_mutex_lock) return 0;
    }
    return sim_mutex_lock(m);
}
int pthread_mutex_trylock(pthread_mutex_t* m) {
    if (!g_resolved) {
        resolve();
        if (!real_mutex_trylock) return 0;
    }
    return sim_mutex_trylock(m);
}
int pthread_mutex_unlock(pthread_mutex_t* m) {
    if (!g_resolved) {
        resolve();
        if (!real_mutex_unlock) return 0;
    }
    return sim_mutex_unlock(m);
}
int pthread_rwlock_rdlock(pthread_rwlock_t* l) {
    resolve();
    return sim_rw_lock(l, false);
}
int pthread_rwlock_wrlock(pthread_rwlock_t* l) {
    resolve();
    return sim_rw_lock(l, true);
}
int pthread_rwlock_tryrdlock(pthread_rwlock_t* l) {
    resolve();
    sp(K_TRYLOCK);
    return real_rw_tryrd(l);
}
int pthread_rwlock_trywrlock(pthread_rwlock_t* l) {
    resolve();
    sp(K_TRYLOCK);
    return real_rw_trywr(l);
}
int pthread_rwlock_unlock(pthread_rwlock_t* l) {
    resolve();
    return sim_rw_unlock(l);
}

int pthread_cond_wait(pthread_cond_t* c, pthread_mutex_t* m) {
    resolve();
    if (!t_self || !g_inited) return real_cond_wait(c, m);
    if (g_live <= 1) abort_run(V_DEADLOCK, "condition wait with no other task alive");
    return sim_cond_wait(c, m, 0);
}
int pthread_cond_timedwait(pthread_cond_t* c, pthread_mutex_t* m, const struct timespec* ts) {
    resolve();
    if (!t_self || !g_inited) return real_cond_timedwait(c, m, ts);
    return sim_cond_wait(c, m, std::max<uint64_t>(1, abs_to_simns(ts, CLOCK_REALTIME)));
}
int pthread_cond_clockwait(pthread_cond_t* c, pthread_mutex_t* m, clockid_t clk, const struct timespec* ts) {
    resolve();
    if (!t_self || !g_inited) return real_cond_clockwait(c, m, clk, ts);
    return sim_cond_wait(c, m, std::max<uint64_t>(1, abs_to_simns(ts, clk)));
}
int pthread_cond_signal(pthread_cond_t* c) {
    resolve();
    if (!t_self || !g_inited) return real_cond_signal(c);
    sim_cond_wake(c, false);
    sp(K_COND_SIGNAL);
    return 0;
}
int pthread_cond_broadcast(pthread_cond_t* c) {
    resolve();
    if (!t_self || !g_inited) return real_cond_broadcast(c);
    sim_cond_wake(c, true);
    sp(K_COND_SIGNAL);
    return 0;
}

int pthread_create(pthread_t* th, const pthread_attr_t* attr, void* (*fn)(void*), void* arg) {
    resolve();
    if (!t_self || !g_inited) return real_create(th, attr, fn, arg);
    Task* t = spawn(nullptr);
    t->external = true;
    t->fn = [t, fn, arg] { t->retval = fn(arg); };
    *th = t->th;
    sp(K_SPAWN);
    return 0;
}
int pthread_join(pthread_t th, void** ret) {
    resolve();
    Task* me = t_self;
    if (me && g_inited) {
        for (int i = 1; i < MAXT; i++) {
            Task* t = &g_tasks[i];
            if (t->has_thread && t->external && t->state != S_FREE && pthread_equal(t->th, th)) {
                void* rv;
                while (t->state != S_DONE) block(me, K_JOIN, t, 0);
                rv = t->retval;
                t->state = S_FREE;
                t->external = false;
                if (ret) *ret = rv;
                return 0;
            }
        }
    }
    return real_join(th, ret);
}
int pthread_detach(pthread_t th) {
    resolve();
    if (t_self && g_inited) {
        for (int i = 1; i < MAXT; i++) {
            Task* t = &g_tasks[i];
            if (t->has_thread && t->external && t->state != S_FREE && pthread_equal(t->th, th)) {
                t->detached = true;
                if (t->state == S_DONE) t->state = S_FREE;
                return 0;
            }
        }
    }
    return real_detach(th);
}

int sched_yield(void) {
    Task* me = t_self;
    if (!me || !g_inited || g_live <= 1) return 0;
    if (!me->nopreempt) {
        g_kinds[K_YIELD]++;
        spin_yield(me);
    }
    return 0;
}

static void fill_ts(struct timespec* ts, uint64_t ns, bool realtime) {
    uint64_t t = ns + (realtime ? CLOCK_BASE_S * 1000000000ull : 0);
    ts->tv_sec = (time_t)(t / 1000000000ull);
    ts->tv_nsec = (long)(t % 1000000000ull);
}
int clock_gettime(clockid_t clk, struct timespec* ts) {
    if (!g_inited || !t_self) {
        resolve();
        if (real_clock_gettime) return real_clock_gettime(clk, ts);
        ts->tv_sec = 0;
        ts->tv_nsec = 0;
        return 0;
    }
    g_simns += 200;  // reading the clock takes time
    g_kinds[K_CLOCK]++;
    fill_ts(ts, now_ns(), clk == CLOCK_REALTIME || clk == CLOCK_REALTIME_COARSE);
    return 0;
}
int gettimeofday(struct timeval* tv, void*) {
    struct timespec ts;
    clock_gettime(CLOCK_REALTIME, &ts);
    if (tv) {
        tv->tv_sec = ts.tv_sec;
        tv->tv_usec = ts.tv_nsec / 1000;
    }
    return 0;
}
time_t time(time_t* p) {
    struct timespec ts;
    clock_gettime(CLOCK_REALTIME, &ts);
    if (p) *p = ts.tv_sec;
    return ts.tv_sec;
}
int getrusage(int who, struct rusage* ru) {
    resolve();
    int rc = real_getrusage ? real_getrusage(who, ru) : 0;
    if (g_inited && t_self && ru) {
        uint64_t ns = now_ns();
        ru->ru_utime.tv_sec = (time_t)(ns / 1000000000ull);
        ru->ru_utime.tv_usec = (suseconds_t)((ns % 1000000000ull) / 1000);
        ru->ru_stime.tv_sec = 0;
        ru->ru_stime.tv_usec = 0;
        ru->ru_maxrss = 65536;
    }
    return rc;
}
static int sim_sleep_ns(uint64_t ns) {
    Task* me = t_self;
    if (!me || !g_inited) return -1;
    InRt rt_guard(me);
    if (g_live <= 1) {
        g_simns += ns;
        return 0;
    }
    uint64_t dl = g_simns + std::max<uint64_t>(ns, 1);
    while (g_simns < dl) {
        me->state = S_SLEEPING;
        me->deadline = dl;
        me->wait_obj = nullptr;
        account(me, K_SLEEP);
        Task* next = pick(me);
        handoff(me, next, false);
    }
    return 0;
}
int nanosleep(const struct timespec* req, struct timespec* rem) {
    if (!g_inited || !t_self) {
        resolve();
        return real_nanosleep(req, rem);
    }
    sim_sleep_ns((uint64_t)req->tv_sec * 1000000000ull + (uint64_t)req->tv_nsec);
    if (rem) {
        rem->tv_sec = 0;
        rem->tv_nsec = 0;
    }
    return 0;
}
int clock_nanosleep(clockid_t clk, int flags, const struct timespec* req, struct timespec* rem) {
    if (!g_inited || !t_self) return 0;
    uint64_t ns;
    if (flags & TIMER_ABSTIME) {
        uint64_t a = abs_to_simns(req, clk);
        ns = a > g_simns ? a - g_simns : 0;
    } else {
        ns = (uint64_t)req->tv_sec * 1000000000ull + (uint64_t)req->tv_nsec;
    }
    sim_sleep_ns(ns);
    if (rem) {
        rem->tv_sec = 0;
        rem->tv_nsec = 0;
    }
    return 0;
}
int usleep(useconds_t us) {
    if (!g_inited || !t_self) return 0;
    sim_sleep_ns((uint64_t)us * 1000ull);
    return 0;
}

// function-local statics: never preempt a task that is running an initialiser
int __cxa_guard_acquire(void* g) {
    resolve();
    int rc = real_guard_acquire(g);
    if (rc && t_self) t_self->nopreempt++;
    return rc;
}
void __cxa_guard_release(void* g) {
    resolve();
    real_guard_release(g);
    if (t_self && t_self->nopreempt > 0) t_self->nopreempt--;
}
void __cxa_guard_abort(void* g) {
    resolve();
    real_guard_abort(g);
    if (t_self && t_self->nopreempt > 0) t_self->nopreempt--;
}

// =================================================================== tsan ABI
typedef int morder;

void __tsan_init() {}  // real initialisation happens in sim_ctor (after this TU's globals are constructed)
void __tsan_func_entry(void*) {}
void __tsan_func_exit() {}
void __tsan_ignore_thread_begin() {}
void __tsan_ignore_thread_end() {}

static inline void plain_access() {
    if (g_plain_period == 0) return;
    Task* me = t_self;
    if (me == nullptr || g_live <= 1 || me->nopreempt || me->in_rt || g_aborting) return;
    if (++me->plain_ctr % (uint64_t)g_plain_period != 0) return;
    // a task that is not spinning on an atomic and executes ordinary memory accesses is making progress
    if (!me->spinning) progress();
    sched_point(me, K_PLAIN);
}
// schedule point requested by instrumented code (never from inside the runtime itself)
static inline void tsp(int kind) {
    Task* me = t_self;
    if (me == nullptr || me->in_rt) return;
    sp(kind);
}
static inline bool observing(Task* me) {
    return me && g_live > 1 && !me->nopreempt && !me->in_rt && !g_aborting;
}
static inline void volatile_access() {
    tsp(K_VOLATILE);
}

extern "C++" {
// a volatile read is a schedule point *and* a spin observation (the Brie's `while (version % 2)` loops read volatile fields);
// the callback runs before the access, so the value the access is about to see is read here (no switch in between)
template <typename T>
static inline void volatile_read(void* a) {
    tsp(K_VOLATILE);
    Task* me = t_self;
    if (observing(me)) {
        uint64_t v = (uint64_t) * (volatile T*)a;
        spin_observe(me, a, v);
    }
}
static inline void volatile_write() {
    tsp(K_VOLATILE);
    if (g_live > 1) effective_write();
}
}
#define PLAIN(n, T)                                          \
    void __tsan_read##n(void*) { plain_access(); }           \
    void __tsan_write##n(void*) { plain_access(); }          \
    void __tsan_unaligned_read##n(void*) { plain_access(); } \
    void __tsan_unaligned_write##n(void*) { plain_access(); } \
    void __tsan_volatile_read##n(void* a) { volatile_read<T>(a); } \
    void __tsan_volatile_write##n(void*) { volatile_write(); } \
    void __tsan_unaligned_volatile_read##n(void* a) { volatile_read<T>(a); } \
    void __tsan_unaligned_volatile_write##n(void*) { volatile_write(); }
PLAIN(1, uint8_t)
PLAIN(2, uint16_t)
PLAIN(4, uint32_t)
PLAIN(8, uint64_t)
#undef PLAIN
void __tsan_read16(void*) { plain_access(); }
void __tsan_write16(void*) { plain_access(); }
void __tsan_unaligned_read16(void*) { plain_access(); }
void __tsan_unaligned_write16(void*) { plain_access(); }
void __tsan_volatile_read16(void*) { volatile_access(); }
void __tsan_volatile_write16(void*) { volatile_write(); }
void __tsan_unaligned_volatile_read16(void*) { volatile_access(); }
void __tsan_unaligned_volatile_write16(void*) { volatile_write(); }
void __tsan_read_range(void*, unsigned long) {
    plain_access();
}
void __tsan_write_range(void*, unsigned long) {
    plain_access();
}
void __tsan_vptr_update(void**, void*) {}
void __tsan_vptr_read(void**) {}

void __tsan_atomic_thread_fence(morder) {
    tsp(K_FENCE);
    __atomic_thread_fence(__ATOMIC_SEQ_CST);
}
void __tsan_atomic_signal_fence(morder) {}

#define ATOMICS(N, T)                                                                                      \
    T __tsan_atomic##N##_load(const volatile T* a, morder) {                                               \
        tsp(K_ATOMIC_LOAD);                                                                                 \
        T v = __atomic_load_n(a, __ATOMIC_SEQ_CST);                                                        \
        Task* me = t_self;                                                                                 \
        if (observing(me)) spin_observe(me, (const void*)a, (uint64_t)v);            \
        else if (g_live <= 1 && me && !me->in_rt) solo_observe((const void*)a, (uint64_t)v);             \
        return v;                                                                                          \
    }                                                                                                      \
    void __tsan_atomic##N##_store(volatile T* a, T v, morder) {                                            \
        tsp(K_ATOMIC_STORE);                                                                                \
        __atomic_store_n(a, v, __ATOMIC_SEQ_CST);                                                          \
        if (g_live > 1) effective_write();                                                                 \
    }                                                                                                      \
    T __tsan_atomic##N##_exchange(volatile T* a, T v, morder) {                                            \
        tsp(K_ATOMIC_RMW);                                                                                  \
        T o = __atomic_exchange_n(a, v, __ATOMIC_SEQ_CST);                                                 \
        if (g_live > 1) {                                                                                  \
            if (o != v)                                                                                    \
                effective_write();                                                                         \
            else if (observing(t_self))                                                         \
                spin_observe(t_self, (const void*)a, (uint64_t)o);                                         \
        }                                                                                                  \
        return o;                                                                                          \
    }                                                                                                      \
    static inline void rmw_after_##N(volatile T* a, T o, T nv) {                                           \
        if (g_live <= 1 && o == nv && t_self && !t_self->in_rt) solo_observe((const void*)a, (uint64_t)o);  \
        if (g_live > 1) {                                                                                  \
            if (o != nv)                                                                                   \
                effective_write();                                                                         \
            else if (observing(t_self))                                                         \
                spin_observe(t_self, (const void*)a, (uint64_t)o);                                         \
        }                                                                                                  \
    }                                                                                                      \
    T __tsan_atomic##N##_fetch_add(volatile T* a, T v, morder) {                                           \
        tsp(K_ATOMIC_RMW);                                                                                  \
        T o = __atomic_fetch_add(a, v, __ATOMIC_SEQ_CST);                                                  \
        rmw_after_##N(a, o, (T)(o + v));                                                                   \
        return o;                                                                                          \
    }                                                                                                      \
    T __tsan_atomic##N##_fetch_sub(volatile T* a, T v, morder) {                                           \
        tsp(K_ATOMIC_RMW);                                                                                  \
        T o = __atomic_fetch_sub(a, v, __ATOMIC_SEQ_CST);                                                  \
        rmw_after_##N(a, o, (T)(o - v));                                                                   \
        return o;                                                                                          \
    }                                                                                                      \
    T __tsan_atomic##N##_fetch_and(volatile T* a, T v, morder) {                                           \
        tsp(K_ATOMIC_RMW);                                                                                  \
        T o = __atomic_fetch_and(a, v, __ATOMIC_SEQ_CST);                                                  \
        rmw_after_##N(a, o, (T)(o & v));                                                                   \
        return o;                                                                                          \
    }                                                                                                      \
    T __tsan_atomic##N##_fetch_or(volatile T* a, T v, morder) {                                            \
        tsp(K_ATOMIC_RMW);                                                                                  \
        T o = __atomic_fetch_or(a, v, __ATOMIC_SEQ_CST);                                                   \
        rmw_after_##N(a, o, (T)(o | v));                                                                   \
        return o;                                                                                          \
    }                                                                                                      \
    T __tsan_atomic##N##_fetch_xor(volatile T* a, T v, morder) {                                           \
        tsp(K_ATOMIC_RMW);                                                                                  \
        T o = __atomic_fetch_xor(a, v, __ATOMIC_SEQ_CST);                                                  \
        rmw_after_##N(a, o, (T)(o ^ v));                                                                   \
        return o;                                                                                          \
    }                                                                                                      \
    T __tsan_atomic##N##_fetch_nand(volatile T* a, T v, morder) {                                          \
        tsp(K_ATOMIC_RMW);                                                                                  \
        T o = __atomic_fetch_nand(a, v, __ATOMIC_SEQ_CST);                                                 \
        rmw_after_##N(a, o, (T) ~(o & v));                                                                 \
        return o;                                                                                          \
    }                                                                                                      \
    int __tsan_atomic##N##_compare_exchange_strong(volatile T* a, T* c, T v, morder, morder) {             \
        tsp(K_ATOMIC_CAS);                                                                                  \
        T exp = *c;                                                                                        \
        bool ok = __atomic_compare_exchange_n(a, c, v, false, __ATOMIC_SEQ_CST, __ATOMIC_SEQ_CST);         \
        if (g_live > 1) {                                                                                  \
            if (ok && exp != v)                                                                            \
                effective_write();                                                                         \
            else if (!ok && observing(t_self))                                                  \
                spin_observe(t_self, (const void*)a, (uint64_t)*c);                                        \
        }                                                                                                  \
        return ok;                                                                                         \
    }                                                                                                      \
    int __tsan_atomic##N##_compare_exchange_weak(volatile T* a, T* c, T v, morder, morder) {               \
        tsp(K_ATOMIC_CAS);                                                                                  \
        if (g_live > 1 && fault(F_WEAK_CAS)) {                                                             \
            /* spurious failure: expected value is reloaded, memory untouched */                           \
            *c = __atomic_load_n(a, __ATOMIC_SEQ_CST);                                                     \
            return 0;                                                                                      \
        }                                                                                                  \
        T exp = *c;                                                                                        \
        bool ok = __atomic_compare_exchange_n(a, c, v, false, __ATOMIC_SEQ_CST, __ATOMIC_SEQ_CST);         \
        if (g_live > 1) {                                                                                  \
            if (ok && exp != v)                                                                            \
                effective_write();                                                                         \
            else if (!ok && observing(t_self))                                                  \
                spin_observe(t_self, (const void*)a, (uint64_t)*c);                                        \
        }                                                                                                  \
        return ok;                                                                                         \
    }                                                                                                      \
    T __tsan_atomic##N##_compare_exchange_val(volatile T* a, T c, T v, morder, morder) {                   \
        tsp(K_ATOMIC_CAS);                                                                                  \
        T exp = c;                                                                                         \
        bool ok = __atomic_compare_exchange_n(a, &c, v, false, __ATOMIC_SEQ_CST, __ATOMIC_SEQ_CST);        \
        if (g_live > 1) {                                                                                  \
            if (ok && exp != v)                                                                            \
                effective_write();                                                                         \
            else if (!ok && observing(t_self))                                                  \
                spin_observe(t_self, (const void*)a, (uint64_t)c);                                         \
        }                                                                                                  \
        return c;                                                                                          \
    }

ATOMICS(8, unsigned char)
ATOMICS(16, unsigned short)
ATOMICS(32, unsigned int)
ATOMICS(64, unsigned long)
#undef ATOMICS

// =================================================================== OpenMP runtime (libgomp ABI subset)
static Team g_implicit_team __attribute__((init_priority(101)));

static Team* cur_team(Task* me) {
    if (me->team) return me->team;
    return nullptr;
}

int omp_get_thread_num(void) {
    Task* me = t_self;
    return (me && me->team) ? me->team_tid : 0;
}
int omp_get_num_threads(void) {
    Task* me = t_self;
    return (me && me->team) ? me->team->n : 1;
}
int omp_get_max_threads(void) {
    return g_omp_max;
}
void omp_set_num_threads(int n) {
    if (n > 0) g_omp_max = n;
}
int omp_in_parallel(void) {
    Task* me = t_self;
    return me && me->team && me->team->n > 1;
}
int omp_get_num_procs(void) {
    return g_omp_max;
}
int omp_get_level(void) {
    Task* me = t_self;
    int l = 0;
    for (Team* t = me ? me->team : nullptr; t; t = t->parent) l++;
    return l;
}
int omp_get_dynamic(void) {
    return 0;
}
void omp_set_dynamic(int) {}
void omp_set_nested(int) {}
int omp_get_nested(void) {
    return 0;
}
int omp_get_thread_limit(void) {
    return MAXT - 1;
}
double omp_get_wtime(void) {
    struct timespec ts;
    clock_gettime(CLOCK_MONOTONIC, &ts);
    return ts.tv_sec + ts.tv_nsec * 1e-9;
}

static void team_barrier(Task* me) {
    Team* tm = me->team;
    if (!tm || tm->n <= 1) return;
    sp(K_BARRIER);
    uint64_t gen = tm->barrier_gen;
    if (++tm->barrier_count == tm->n) {
        tm->barrier_count = 0;
        tm->barrier_gen++;
        wake_all(&tm->barrier_gen);
        progress();
        sp(K_BARRIER);
    } else {
        while (tm->barrier_gen == gen) block(me, K_BARRIER, &tm->barrier_gen, 0);
    }
}

static void run_region(void (*fn)(void*), void* data, unsigned num_threads, WorkShare* pre) {
    InRt rt_guard(t_self);
    init_once();
    Task* me = t_self;
    if (!me) {
        fn(data);
        return;
    }
    int N = num_threads ? (int)num_threads : g_omp_max;
    if (N < 1) N = 1;
    if (N > MAXT - 8) N = MAXT - 8;
    if (me->team && me->team->n > 1) N = 1;  // nested regions are serialised (libgomp default)
    if (N > 1 && fault(F_TEAM_SHRINK)) N = 1 + (int)g_rng_fault.below(N);
    Team* tm = new Team();
    tm->n = N;
    tm->parent = me->team;
    if (pre) tm->ws.push_back(*pre);
    Team* saved_team = me->team;
    int saved_tid = me->team_tid;
    size_t saved_ws = me->ws_idx;
    me->team = tm;
    me->team_tid = 0;
    me->ws_idx = 0;
    tm->members.push_back(me);
    g_regions++;
    fold(0x9e9e0000 + N);
    for (int i = 1; i < N; i++) {
        Task* t = spawn(nullptr);
        t->team = tm;
        t->team_tid = i;
        t->ws_idx = 0;
        t->fn = [fn, data] { fn(data); };
        tm->members.push_back(t);
    }
    sp(K_FORK);
    {
        int saved_rt = me->in_rt;
        me->in_rt = 0;
        fn(data);
        me->in_rt = saved_rt;
    }
    for (int i = 1; i < N; i++) join_task(me, tm->members[i]);
    me->team = saved_team;
    me->team_tid = saved_tid;
    me->ws_idx = saved_ws;
    delete tm;
    progress();
}

void GOMP_parallel(void (*fn)(void*), void* data, unsigned num_threads, unsigned /*flags*/) {
    run_region(fn, data, num_threads, nullptr);
}

static WorkShare* get_ws(Task* me) {
    InRt rt_guard(me);
    if (!me->team) {
        // orphaned work-sharing construct: implicit team of one
        g_implicit_team.n = 1;
        g_implicit_team.ws.clear();
        me->team = &g_implicit_team;
        me->team_tid = 0;
        me->ws_idx = 0;
    }
    Team* tm = me->team;
    while (tm->ws.size() <= me->ws_idx) tm->ws.emplace_back();
    return &tm->ws[me->ws_idx];
}

static void ws_init_long(WorkShare* w, long start, long end, long incr, long chunk) {
    InRt rt_guard(t_self);
    w->init = true;
    w->is_ull = false;
    w->next = start;
    w->end = end;
    w->incr = incr;
    w->chunk = chunk < 1 ? 1 : chunk;
    // materialise small chunk lists so the hand-out order can be permuted
    long span = incr > 0 ? (end > start ? end - start : 0) : (start > end ? start - end : 0);
    long step = (incr > 0 ? incr : -incr) * w->chunk;
    long nchunks = step ? (span + step - 1) / step : 0;
    w->use_list = false;
    if (nchunks > 1 && nchunks <= 4096 && fault(F_CHUNK_ORDER)) {
        w->use_list = true;
        long s = start;
        for (long i = 0; i < nchunks; i++) {
            long e = s + incr * w->chunk;
            if ((incr > 0 && e > end) || (incr < 0 && e < end)) e = end;
            w->chunks.emplace_back(s, e);
            s = e;
        }
        if (g_rng_fault.below(2)) {
            std::reverse(w->chunks.begin(), w->chunks.end());
        } else {
            for (size_t i = w->chunks.size(); i > 1; i--) std::swap(w->chunks[i - 1], w->chunks[g_rng_fault.below(i)]);
        }
        w->chunk_pos = 0;
    }
}

static bool ws_next_long(WorkShare* w, long* istart, long* iend) {
    InRt rt_guard(t_self);
    sp(K_CHUNK);
    if (w->use_list) {
        if (w->chunk_pos >= w->chunks.size()) return false;
        *istart = w->chunks[w->chunk_pos].first;
        *iend = w->chunks[w->chunk_pos].second;
        w->chunk_pos++;
        progress();
        return true;
    }
    if (w->incr > 0 ? w->next >= w->end : w->next <= w->end) return false;
    long s = w->next;
    long e = s + w->incr * w->chunk;
    if ((w->incr > 0 && e > w->end) || (w->incr < 0 && e < w->end)) e = w->end;
    w->next = e;
    *istart = s;
    *iend = e;
    progress();
    return true;
}

bool GOMP_loop_nonmonotonic_dynamic_start(long start, long end, long incr, long chunk, long* istart, long* iend) {
    Task* me = t_self;
    WorkShare* w = get_ws(me);
    if (!w->init) ws_init_long(w, start, end, incr, chunk);
    return ws_next_long(w, istart, iend);
}
bool GOMP_loop_dynamic_start(long start, long end, long incr, long chunk, long* istart, long* iend) {
    return GOMP_loop_nonmonotonic_dynamic_start(start, end, incr, chunk, istart, iend);
}
bool GOMP_loop_nonmonotonic_dynamic_next(long* istart, long* iend) {
    return ws_next_long(get_ws(t_self), istart, iend);
}
bool GOMP_loop_dynamic_next(long* istart, long* iend) {
    return ws_next_long(get_ws(t_self), istart, iend);
}

typedef unsigned long long ull;
static bool ws_next_ull(WorkShare* w, ull* istart, ull* iend) {
    sp(K_CHUNK);
    if (w->up ? w->unext >= w->uend : w->unext <= w->uend) return false;
    ull s = w->unext, e;
    ull stepv = w->uincr * w->uchunk;
    if (w->up) {
        e = (w->uend - s < stepv) ? w->uend : s + stepv;
    } else {
        ull dec = (ull)(-(long long)w->uincr) * w->uchunk;
        e = (s - w->uend < dec) ? w->uend : s - dec;
    }
    w->unext = e;
    *istart = s;
    *iend = e;
    progress();
    return true;
}
bool GOMP_loop_ull_nonmonotonic_dynamic_start(bool up, ull start, ull end, ull incr, ull chunk, ull* istart, ull* iend) {
    WorkShare* w = get_ws(t_self);
    if (!w->init) {
        w->init = true;
        w->is_ull = true;
        w->up = up;
        w->unext = start;
        w->uend = end;
        w->uincr = incr;
        w->uchunk = chunk < 1 ? 1 : chunk;
    }
    return ws_next_ull(w, istart, iend);
}
bool GOMP_loop_ull_dynamic_start(bool up, ull start, ull end, ull incr, ull chunk, ull* istart, ull* iend) {
    return GOMP_loop_ull_nonmonotonic_dynamic_start(up, start, end, incr, chunk, istart, iend);
}
bool GOMP_loop_ull_nonmonotonic_dynamic_next(ull* istart, ull* iend) {
    return ws_next_ull(get_ws(t_self), istart, iend);
}
bool GOMP_loop_ull_dynamic_next(ull* istart, ull* iend) {
    return ws_next_ull(get_ws(t_self), istart, iend);
}

void GOMP_loop_end_nowait(void) {
    Task* me = t_self;
    me->ws_idx++;
    if (me->team == &g_implicit_team) me->team = nullptr;
}
void GOMP_loop_end(void) {
    Task* me = t_self;
    me->ws_idx++;
    if (me->team == &g_implicit_team) {
        me->team = nullptr;
        return;
    }
    team_barrier(me);
}
void GOMP_barrier(void) {
    Task* me = t_self;
    if (me) team_barrier(me);
}
bool GOMP_single_start(void) {
    Task* me = t_self;
    if (!me->team || me->team->n <= 1) return true;
    sp(K_SINGLE);
    WorkShare* w = get_ws(me);
    me->ws_idx++;
    if (w->single_taken) return false;
    w->single_taken = true;
    return true;
}

void GOMP_parallel_loop_nonmonotonic_dynamic(void (*fn)(void*), void* data, unsigned num_threads, long start, long end,
        long incr, long chunk, unsigned /*flags*/) {
    WorkShare w;
    ws_init_long(&w, start, end, incr, chunk);
    run_region(fn, data, num_threads, &w);
}
void GOMP_parallel_loop_dynamic(void (*fn)(void*), void* data, unsigned num_threads, long start, long end, long incr,
        long chunk, unsigned flags) {
    GOMP_parallel_loop_nonmonotonic_dynamic(fn, data, num_threads, start, end, incr, chunk, flags);
}

// critical sections and GOMP_atomic: simulated mutexes keyed by address
struct SimLock {
    Task* owner = nullptr;
};
static SimLock g_crit_default, g_atomic_lock;
static std::map<void*, SimLock> g_crit_named __attribute__((init_priority(101)));

static void simlock_acquire(SimLock* l) {
    Task* me = t_self;
    if (!me) return;
    sp(K_CRITICAL);
    while (l->owner && l->owner != me) {
        if (g_live <= 1) break;
        block(me, K_CRITICAL, l, 0);
    }
    l->owner = me;
    progress();
}
static void simlock_release(SimLock* l) {
    l->owner = nullptr;
    if (g_live > 1) {
        wake_all(l);
        effective_write();
        sp(K_UNLOCK);
    }
}
void GOMP_critical_start(void) {
    simlock_acquire(&g_crit_default);
}
void GOMP_critical_end(void) {
    simlock_release(&g_crit_default);
}
void GOMP_critical_name_start(void** p) {
    InRt rt_guard(t_self);
    simlock_acquire(&g_crit_named[(void*)p]);
}
void GOMP_critical_name_end(void** p) {
    InRt rt_guard(t_self);
    simlock_release(&g_crit_named[(void*)p]);
}
void GOMP_atomic_start(void) {
    simlock_acquire(&g_atomic_lock);
}
void GOMP_atomic_end(void) {
    simlock_release(&g_atomic_lock);
}

}  // extern "C"

"""Whole-program checks: one function per property, all built on vlib.psim.Explorer."""
import glob
import itertools
import json
import os
import random
import shutil
import time

from . import props_psim as P
from . import psim
from .common import BUILD, NCPU, REPO, VERIF, base_seed, finish, log, match_known, write_evidence
from .psim import Case, Explorer, Workload

QUICK_S = 150
THOROUGH_S = 20 * 60


def budget(tier):
    if os.environ.get("VERIF_BUDGET_S"):
        return float(os.environ["VERIF_BUDGET_S"])
    return QUICK_S if tier == "quick" else THOROUGH_S


def interleave(*its):
    its = [iter(i) for i in its]
    while its:
        for it in list(its):
            try:
                yield next(it)
            except StopIteration:
                its.remove(it)


def finish_check(prop, tier, ex, t0, build_s, oracle, ref_fn, assumptions, extra_cov=None, binary_builder=None):
    violations, known_lines, mfaults = [], [], []
    nreg = 0
    for rp in sorted(glob.glob(os.path.join(VERIF, "regress", prop + "_*.replay.json"))):
        if json.load(open(rp)).get("kind") != "psim":
            continue
        ok, got = psim.replay_psim(prop, rp, ex.exe, oracle, ref_fn, binary_builder)
        nreg += 1
        if ok:
            log("regression: %s reproduces again" % rp)
            violations.append(rp)
    byclass = {}
    known_seen = {}
    for f in ex.failures:
        # failures listed in known_findings.json are reported once per entry and never hide another failure of the same run
        unknown = []
        for cls, msg in f["fails"]:
            kf = match_known(prop, cls, msg, f["case"].w.wid)
            if kf:
                known_seen.setdefault(kf.get("what", cls), (cls, f["case"].w.wid))
            else:
                unknown.append((cls, msg))
        if not unknown:
            continue
        f = dict(f, fails=unknown)
        cls = unknown[0][0]
        key = cls.split(":")[0] + ":" + f["case"].mode
        cur = byclass.get(key)
        size = sum(len(v) for v in f["case"].w.facts.values()) if f["case"].w.origin != "corpus" else 10 ** 9
        if cur is None or size < cur[0]:
            byclass[key] = (size, f)
    for what, (cls, wid) in sorted(known_seen.items()):
        known_lines.append("KNOWN-FINDING: property=%s %s (%s, e.g. on %s)" % (prop, what, cls, wid))
    reported = 0
    for key, (_, f) in sorted(byclass.items()):
        cls, msg = f["fails"][0]
        if cls == "oracle-exception":
            mfaults.append("oracle raised an exception on %s: %s" % (f["case"].key(), msg))
            continue
        if reported >= 2:
            continue
        path, mf = psim.minimise(prop, ex.exe, f, oracle, ref_fn, tier)
        if path:
            violations.append(path)
            reported += 1
            log("violation: %s on %s: %s" % (cls, f["case"].key(), msg))
        elif mf:
            mfaults.append(mf)
    wall = time.time() - t0
    cov = ex.coverage(wall, build_s, dict({"regression_replays_run": nreg}, **(extra_cov or {})))
    write_evidence(prop, tier, base_seed(), cov, wall, len(violations), assumptions)
    log("%s: %d runs over %d workloads, %d distinct non-trivial, %d failing, %.0fs" % (prop, cov["evaluations"], cov["workloads"], cov["distinct_nontrivial"],
                                                                                        len(ex.failures), wall))
    shutil.rmtree(os.path.join(BUILD, "tmp", "psim_%d" % os.getpid()), ignore_errors=True)
    if not ex.results and not violations:
        mfaults.append("no simulated run completed")
    return finish(prop, violations, known_lines, mfaults)


def build_or_fail(prop, tier, assumptions):
    exe, bs = psim.build_simsouffle()
    if exe is None:
        write_evidence(prop, tier, base_seed(), {"evaluations": 0, "distinct_nontrivial": 0, "rule": "build failed", "samples": []}, bs, 0, assumptions)
        finish(prop, [], [], ["instrumented build of libsouffle failed"])
        return None, bs
    return exe, bs


def generic(prop, tier, oracle, assumptions, interp_workloads, compiled_workloads, k_quick=10, k_thorough=40, extra_args=(), port_faults=True,
            tick_choices=None, compiled_share=0.3, ncomp_quick=4, ncomp_thorough=40, need_par=True, ref_extra_args=None, synth_args=(),
            alt_extra_args=None):
    """interp_workloads / compiled_workloads: functions (exe, tier) -> iterator of Workload."""
    t0 = time.time()
    exe, bs = build_or_fail(prop, tier, assumptions)
    if exe is None:
        return 2
    ex = Explorer(prop, exe, tier, oracle, assumptions)
    total = budget(tier)
    k = k_quick if tier == "quick" else k_thorough

    def prep(w):
        kinds = P.par_kinds(exe, w)
        with ex.lock:
            for a, b in kinds.items():
                ex.par_kinds[a] = ex.par_kinds.get(a, 0) + b
        w.meta["par_kinds"] = kinds
        return True

    rargs = extra_args if ref_extra_args is None else ref_extra_args
    ref_i = lambda w: P.ref_case(w, extra_args=rargs)
    ex.explore(interp_workloads(exe, tier), P.mk_cases_default(k, extra_args=extra_args, port_faults=port_faults, tick_choices=tick_choices,
                                                                 alt_extra_args=alt_extra_args), ref_i,
               total * (1 - compiled_share if compiled_workloads else 1.0), prepare=prep)
    nbefore = len(ex.results)
    ref_any = ref_i
    bb = None
    if compiled_workloads:
        ncomp = ncomp_quick if tier == "quick" else ncomp_thorough
        comp_iter = itertools.islice(compiled_workloads(exe, tier), ncomp)

        def prep_c(w):
            w.meta["synth_args"] = list(synth_args)
            b = P.build_compiled(exe, w)
            if not b:
                return False
            w.meta["binary"] = b
            return True

        mkc = P.mk_cases_default(k, mode="compiled", extra_args=extra_args, port_faults=port_faults, binary_of=lambda w: w.meta["binary"],
                                 tick_choices=tick_choices)
        ref_c = lambda w: P.ref_case(w, "compiled", extra_args=rargs, binary=w.meta["binary"])
        per_w = total * compiled_share / max(1.0, ncomp / float(NCPU))
        ex.explore(comp_iter, mkc, ref_c, total * compiled_share + 600, prepare=prep_c, per_workload_s=per_w)
        ref_any = lambda w: ref_c(w) if w.meta.get("binary") else ref_i(w)

        def bb(w):
            b = P.build_compiled(exe, w)
            w.meta["binary"] = b
            return b
    return finish_check(prop, tier, ex, t0, bs, oracle, ref_any, assumptions,
                        {"compiled_program_runs": len(ex.results) - nbefore, "interpreter_runs": nbefore}, binary_builder=bb)


def check_c03(tier):
    def interp(exe, tier):
        size = "quick" if tier == "quick" else "thorough"
        corpus = psim.corpus_workloads(P.C03_EXCLUDE)
        random.Random(base_seed()).shuffle(corpus)
        if tier == "quick":
            corpus = corpus[:24]
        generated = (P.gen_workload("c03", s, size) for s in P.seeds_for("C03"))
        return interleave(generated, corpus)

    def comp(exe, tier):
        corpus = [w for w in psim.corpus_workloads(P.C03_EXCLUDE) if len(w.text) < 6000]
        random.Random(base_seed() + 1).shuffle(corpus)
        corpus = corpus[: (1 if tier == "quick" else 16)]
        for w in corpus:
            w.materialise()
        generated = (P.gen_workload("c03c", s + 500000, "quick") for s in P.seeds_for("C03"))
        return interleave(generated, generated, generated, corpus)

    return generic("C03", tier, P.oracle_c03, P.A_PSIM, interp, comp, ncomp_quick=12, ncomp_thorough=64, compiled_share=0.4)


def check_c22(tier):
    def interp(exe, tier):
        return (P.gen_workload("c22", s, "quick" if tier == "quick" else "thorough") for s in P.seeds_for("C22"))

    def comp(exe, tier):
        return (P.gen_workload("c22", s + 500000, "quick") for s in P.seeds_for("C22"))

    return generic("C22", tier, P.oracle_c22, P.A_PSIM + ["each counter rule is compared with a sibling rule without the counter (same body) of the same run"],
                   interp, comp, k_quick=12, k_thorough=40, ncomp_quick=8, ncomp_thorough=32, compiled_share=0.4)


def check_c10(tier):
    choice_corpus = ["choice_domain", "choice_total_order", "choice_spanning_tree", "choice_bipartite_matching", "choice"]

    def interp(exe, tier):
        return (P.gen_workload("c10", s, "quick" if tier == "quick" else "thorough") for s in P.seeds_for("C10"))

    def comp(exe, tier):
        return (P.gen_workload("c10", s + 500000, "quick") for s in P.seeds_for("C10"))

    return generic("C10", tier, P.oracle_c10, P.A_PSIM + [
        "soundness is checked as one-step derivability from the final database (implied by derivability because nothing is ever deleted)",
        "relations downstream of a choice are non-recursive in the templates and must equal what their rules derive from this run's choice"],
        interp, comp, k_quick=12, k_thorough=40, ncomp_quick=6, ncomp_thorough=30)


def check_c11(tier):
    names = ["issue2551", "issue2322", "issue2323"]

    def interp(exe, tier):
        corpus = psim.corpus_workloads([], names=names)
        gen_ = (P.gen_workload("c11", s, "quick" if tier == "quick" else "thorough") for s in P.seeds_for("C11"))
        return interleave(gen_, corpus)

    def comp(exe, tier):
        return (P.gen_workload("c11c", s + 500000, "quick") for s in P.seeds_for("C11"))

    return generic("C11", tier, P.oracle_c11, P.A_PSIM + [
        "template dominance conditions are strict partial orders; costs are bounded so that the unsubsumed fixpoint is finite",
        "the repository's own subsumptive programs are only compared across runs (oracle parts i and iv)"],
        interp, comp, k_quick=12, k_thorough=40, ncomp_quick=6, ncomp_thorough=30)


def check_c20(tier):
    if not P.build_profcount():
        return finish("C20", [], [], ["profile count extractor does not build"])
    args = ["-p", "{OUT}/prof.json"]

    def interp(exe, tier):
        corpus = psim.corpus_workloads(P.C20_EXCLUDE)
        random.Random(base_seed()).shuffle(corpus)
        corpus = corpus[: (12 if tier == "quick" else 120)]
        gen_ = (P.gen_workload("c20", s, "quick" if tier == "quick" else "thorough") for s in P.seeds_for("C20"))
        return interleave(gen_, corpus)

    def comp(exe, tier):
        return (P.gen_workload("c20", s + 500000, "quick") for s in P.seeds_for("C20"))

    return generic_profile("C20", tier, args, interp, comp)


def generic_profile(prop, tier, args, interp, comp):
    """like generic(), but the reference is the *unprofiled* -j1 run while the cases run with -p"""
    ticks = [100, 1000, 10000, 100000, 1000000]
    return generic(prop, tier, P.oracle_c20, P.A_PSIM + [
        "tuple counts are read with the repository's own profile Reader (profile/Reader.h) and compared with the number of CSV lines written",
        "the profile timer thread runs under the simulated clock: its wake-ups are seeded decisions"],
        interp, comp, k_quick=10, k_thorough=30, extra_args=args, tick_choices=ticks, ncomp_quick=3, ncomp_thorough=20, ref_extra_args=(), synth_args=["-p", "unused-profile.json"],
        alt_extra_args=args + ["--profile-frequency"])


CHECKS = {"C03": check_c03, "C20": check_c20, "C10": check_c10, "C11": check_c11, "C22": check_c22}
ORACLES = {"C03": P.oracle_c03, "C20": P.oracle_c20, "C10": P.oracle_c10, "C11": P.oracle_c11, "C22": P.oracle_c22}


def replay(prop, path):
    exe, _ = psim.build_simsouffle()
    if exe is None:
        return 2
    rp = json.load(open(path))
    extra = rp.get("extra_args", [])

    def bb(w):
        b = P.build_compiled(exe, w)
        w.meta["binary"] = b
        return b

    # C20 compares with the unprofiled sequential run
    rextra = [] if prop == "C20" else extra
    ref = lambda w: P.ref_case(w, "compiled", extra_args=rextra, binary=w.meta["binary"]) if w.meta.get("binary") else P.ref_case(w, extra_args=rextra)
    ok, got = psim.replay_psim(prop, path, exe, ORACLES[prop], ref, bb)
    if ok:
        print("VIOLATION property=%s replay=%s" % (prop, path), flush=True)
        return 1
    log("replay did not reproduce the recorded violation (got: %s)" % got)
    return 0

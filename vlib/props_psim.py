"""Property-specific parts of the whole-program checks: workloads, cases, oracles (C03, C10, C11, C20, C22)."""
import hashlib
import itertools
import json
import os
import random
import subprocess
import threading
import time

from . import psim
from .common import BUILD, NCPU, REPO, VERIF, base_seed, finish, log, match_known, write_evidence
from .psim import Case, Explorer, Workload, corpus_workloads, diff_outputs

import gen  # /verif/psim/gen.py (path added by vlib.psim)
import templates as T  # /verif/psim/templates.py

A_PSIM = [
    "serialised execution explores sequentially consistent interleavings only (no hardware/compiler reordering)",
    "sampling, not enumeration: the property held on every explored (program, input, thread count, schedule, fault) tuple",
    "the reference is the -j1 run of the same instrumented binary (no second task exists, so the scheduler has no influence)",
    "generated programs stay inside the defined value domain (no overflow, no division by zero, no ord(), dyadic floats only)",
]

THREADS = [2, 2, 3, 4, 4, 8, 16]


def gen_workload(kind, seed, size):
    if kind in ("c10", "c11", "c11c"):
        if kind == "c11c":
            # synthesised programs: always a subsumptive relation that is read through several indexes
            t = T.gen_c11(seed, size, always=(random.Random(seed).choice(["secondary", "secondary3"]),))
            kind = "c11"
        else:
            t = (T.gen_c10 if kind == "c10" else T.gen_c11)(seed, size)
        meta = dict(t.meta)
        meta.pop("edb", None)
        meta.update({"template": kind, "rules": t.rules, "no_rule_min": True, "outputs": t.outputs})
        return Workload("%s:%d" % (kind, seed), t.text(), t.facts, meta, "generated")
    g = {"c03": gen.gen_c03, "c03c": gen.gen_c03c, "c22": gen.gen_c22, "c20": gen.gen_c20, "c21": gen.gen_c21}[kind]
    p = g(seed, size)
    facts = dict(p.facts)
    facts.update(p.aux_facts)  # additional fact files read through explicit IO directives
    return Workload("%s:%d" % (kind, seed), p.text(), facts, p.meta, "generated")


def seeds_for(prop):
    base = base_seed() * 7919 + int(hashlib.sha1(prop.encode()).hexdigest()[:6], 16)
    return itertools.count(base)


def mk_cases_default(k, mode="interp", extra_args=(), port_faults=True, binary_of=None, tick_choices=None, alt_extra_args=None):
    def mk(w):
        r = random.Random(hash((w.wid, base_seed())) & 0xffffffff)
        cases = []
        for i in range(k):
            seed = r.randrange(1, 1 << 40)
            n = r.choice(THREADS)
            faults = psim.SCHED_FAULTS
            if port_faults and i % 3 == 2:
                faults |= psim.PORT_FAULTS  # separate configuration: interleaving + named portability faults
            tick = r.choice(tick_choices) if tick_choices else None
            # plain-access sampling period (K=1 multiplies the number of schedule steps by ~10)
            plain = r.choice([0, 0, 0, 64, 64, 8, 1])
            if plain == 1 and tick and tick > 10000:
                # every plain access a step and a millisecond per step: the profiler's timer thread is due again before it
                # finished logging and starves the workers for billions of steps (legitimate, but useless)
                tick = 10000
            xa = alt_extra_args if alt_extra_args is not None and r.random() < 0.3 else extra_args
            cases.append(Case(w, mode, n, seed, faults, xa, binary=binary_of(w) if binary_of else None, tick_ns=tick,
                              env={"VERIF_SIM_PLAIN": str(plain)}))
        return cases
    return mk


def ref_case(w, mode="interp", extra_args=(), binary=None):
    return Case(w, mode, 1, 0, 0, extra_args, binary=binary)


# ---------------------------------------------------------------------------------------- synthesised programs
_inc_fp = [None]
_cc_lock = threading.Lock()


def include_fingerprint():
    if _inc_fp[0] is None:
        h = hashlib.sha1()
        root = os.path.join(REPO, "src", "include")
        for d, _, fs in sorted(os.walk(root)):
            for f in sorted(fs):
                st = os.stat(os.path.join(d, f))
                h.update(("%s:%d:%d;" % (os.path.join(d, f), st.st_size, int(st.st_mtime))).encode())
        for f in ("simrt/simrt.cpp", "simrt/simrt.h"):
            st = os.stat(os.path.join(VERIF, f))
            h.update(("%s:%d:%d;" % (f, st.st_size, int(st.st_mtime))).encode())
        _inc_fp[0] = h.hexdigest()
    return _inc_fp[0]


CXXFLAGS = ["-std=c++17", "-O1", "-fopenmp", "-fsanitize=thread", "--param", "tsan-instrument-func-entry-exit=0", "--param", "tsan-distinguish-volatile=1",
            "-DSOUFFLE_VERIF", "-DUSE_NCURSES", "-DUSE_LIBZ", "-DUSE_SQLITE", "-w"]


def build_compiled(exe, w, extra_src=None, extra_flags=(), synth_args=()):
    """Synthesise the program with the simulator binary and compile it against simrt. Returns binary path or None."""
    if not w.dir or not os.path.isdir(w.dir):
        w.materialise()
    prog = os.path.join(w.dir, "p.dl") if w.origin != "corpus" else os.path.join(w.meta["dir"], w.meta["corpus"] + ".dl")
    cpp = os.path.join(w.dir or psim.tmpdir("syn"), "prog.cpp")
    env = dict(os.environ)
    env["VERIF_SIM_SEED"] = "0"
    synth_args = list(synth_args) or list(w.meta.get("synth_args", []))
    # the RAM is only parallelised when more than one job is requested at synthesis time
    r = subprocess.run([exe, "--no-preprocessor", "-j8", "-g", cpp] + synth_args + [prog], stdout=subprocess.PIPE, stderr=subprocess.PIPE, env=env, cwd=os.path.dirname(prog))
    if r.returncode != 0 or not os.path.exists(cpp):
        return None
    text = open(cpp, "rb").read()
    key = hashlib.sha1(text + include_fingerprint().encode() + repr(sorted(extra_flags)).encode() + (open(extra_src, "rb").read() if extra_src else b"")).hexdigest()
    outdir = os.path.join(BUILD, "cc", key[:2], key)
    binp = os.path.join(outdir, "prog")
    if os.path.exists(binp):
        return binp
    os.makedirs(outdir, exist_ok=True)
    simo = os.path.join(BUILD, "sv", "simrt.o")
    objs = []
    srcs = [cpp] + ([extra_src] if extra_src else [])
    for i, s in enumerate(srcs):
        o = os.path.join(outdir, "o%d.o" % i)
        c = subprocess.run(["g++"] + CXXFLAGS + list(extra_flags) + ["-I", os.path.join(REPO, "src", "include"), "-I", VERIF, "-c", s, "-o", o],
                           stdout=subprocess.PIPE, stderr=subprocess.PIPE)
        if c.returncode != 0:
            log("compile failed:", c.stderr.decode(errors="replace")[-1500:])
            return None
        objs.append(o)
    l = subprocess.run(["g++", "-o", binp + ".tmp"] + objs + [simo, "-lz", "-lsqlite3", "-lncurses", "-ldl", "-lpthread"], stdout=subprocess.PIPE,
                       stderr=subprocess.PIPE)
    if l.returncode != 0:
        log("link failed:", l.stderr.decode(errors="replace")[-1500:])
        return None
    os.replace(binp + ".tmp", binp)
    for o in objs:
        os.remove(o)
    return binp


# ---------------------------------------------------------------------------------------- C03
C03_EXCLUDE = ["choice-domain", "autoinc", "$", "ord(", ".functor", ".pragma \"library", "@", ".plan"]


def oracle_c03(w, ref, res, case):
    f = diff_outputs(ref["outputs"], res["outputs"])
    if not f and w.origin == "corpus":
        # additionally the checked-in expected CSVs (only where the -j1 run itself agrees with them)
        d = w.meta["dir"]
        for rel, lines in ref["outputs"].items():
            exp = os.path.join(d, rel + ".csv")
            if os.path.exists(exp):
                e = sorted(open(exp, "rb").read().split(b"\n")[:-1])
                if e == lines and res["outputs"].get(rel) != e:
                    f.append(("expected-mismatch:" + rel, "relation %s differs from the checked-in expected output" % rel))
    return f


def par_kinds(exe, w):
    """Count the parallel operator kinds of the transformed RAM (evidence: the workload is non-trivial)."""
    prog = os.path.join(w.dir, "p.dl") if w.origin != "corpus" else os.path.join(w.meta["dir"], w.meta["corpus"] + ".dl")
    env = dict(os.environ)
    env["VERIF_SIM_SEED"] = "0"
    try:
        r = subprocess.run([exe, "--no-preprocessor", "-j4", "--show=transformed-ram", prog], stdout=subprocess.PIPE, stderr=subprocess.DEVNULL, env=env,
                           timeout=120, cwd=os.path.dirname(prog))
    except Exception:
        return {}
    k = {}
    for line in r.stdout.decode(errors="replace").splitlines():
        s = line.strip()
        if not s.startswith("PARALLEL"):
            continue
        t = s.split()
        if t[1] == "FOR":
            name = "ParallelIndexScan" if " ON INDEX" in s else "ParallelScan"
        elif t[1] == "IF":
            name = "ParallelIndexIfExists" if " ON INDEX" in s else "ParallelIfExists"
        else:
            name = "ParallelIndexAggregate" if (" ON INDEX" in s or "SEARCH" in s) else "ParallelAggregate"
        k[name] = k.get(name, 0) + 1
    return k


# ---------------------------------------------------------------------------------------- C22
def oracle_c22(w, ref, res, case):
    ai = w.meta.get("autoinc", [])
    skip = set(a["rel"] for a in ai)
    f = diff_outputs(ref["outputs"], res["outputs"], skip=skip)
    seen = {}
    for a in ai:
        # only relations whose counter rule is still part of the (possibly minimised) program are judged
        if not a.get("always") and not any(l.strip().startswith(a["rel"] + "(") and "autoinc()" in l.split(":-")[0] for l in w.text.split("\n")):
            continue
        rows = res["outputs"].get(a["rel"])
        sib = res["outputs"].get(a["sibling"])
        if rows is None or sib is None:
            f.append(("output-missing:" + a["rel"], "counter relation or its sibling was not written"))
            continue
        dup = False
        for line in rows:
            cols = line.split(b"\t")
            for ic in a.get("idcols", [a["idcol"]]):
                v = cols[ic]
                if a.get("mul"):
                    # the column holds counter*mul+add: recover the counter value (an inexact division is itself a wrong value)
                    q, rem = divmod(int(v) - a["add"], a["mul"])
                    if rem:
                        f.append(("autoinc-value", "%s holds %s which is not counter*%d+%d" % (a["rel"], v.decode(), a["mul"], a["add"])))
                        dup = True
                        break
                    v = b"%d" % q
                if v in seen:
                    f.append(("autoinc-duplicate", "auto-increment value %s occurs twice (relations %s and %s)" % (v.decode(), seen[v], a["rel"])))
                    dup = True
                    break
                seen[v] = a["rel"]
            if dup:
                break
        if len(rows) != len(sib):
            f.append(("autoinc-count", "%s has %d tuples but its body has %d instantiations (%s)" % (a["rel"], len(rows), len(sib), a["sibling"])))
    return f


# ---------------------------------------------------------------------------------------- C10 / C11 (templates + mini evaluator)
def int_outputs(outs):
    res = {}
    for rel, lines in outs.items():
        res[rel] = set(tuple(int(x) for x in l.split(b"\t")) for l in lines if l != b"")
    return res


def edb_sets(w):
    return {n: set(tuple(int(x) for x in row) for row in rows) for n, rows in w.facts.items()}


def oracle_c10(w, ref, res, case):
    choice = set(c["rel"] for c in w.meta["choice"]) | set(w.meta.get("downstream", []))
    f = diff_outputs(ref["outputs"], res["outputs"], skip=choice)
    for rel in choice:
        if rel not in res["outputs"]:
            f.append(("output-missing:" + rel, "choice relation %s was not written" % rel))
            return f
    f += T.check_c10(w.meta, w.meta["rules"], edb_sets(w), int_outputs(res["outputs"]))
    return f


def oracle_c11(w, ref, res, case):
    if w.origin == "corpus":
        return diff_outputs(ref["outputs"], res["outputs"])
    f = T.check_c11(w.meta, w.meta["rules"], edb_sets(w), int_outputs(res["outputs"]))
    f += diff_outputs(ref["outputs"], res["outputs"])
    return f


# ---------------------------------------------------------------------------------------- C20 profiling
PROFCOUNT = os.path.join(BUILD, "sv", "profcount")
C20_EXCLUDE = C03_EXCLUDE + ["eqrel", "btree_delete", "<="]


def build_profcount():
    src = os.path.join(VERIF, "psim", "profcount.cpp")
    os.makedirs(os.path.dirname(PROFCOUNT), exist_ok=True)
    r = subprocess.run(["g++", "-std=c++17", "-O1", "-I", os.path.join(REPO, "src", "include"), src, "-o", PROFCOUNT, "-lpthread"], stdout=subprocess.PIPE,
                       stderr=subprocess.PIPE)
    if r.returncode != 0:
        log(r.stderr.decode(errors="replace")[-2000:])
        return False
    return True


def oracle_c20(w, ref, res, case):
    # (i) enabling profiling does not change any output relation
    f = diff_outputs(ref["outputs"], res["outputs"])
    prof = os.path.join(res["outdir"], "prof.json")
    if not os.path.exists(prof):
        return f + [("profile-missing", "no profile was written")]
    try:
        json.load(open(prof))
    except Exception as e:
        return f + [("profile-malformed", "profile is not well-formed JSON: %s" % e)]
    r = subprocess.run([PROFCOUNT, prof], stdout=subprocess.PIPE, stderr=subprocess.PIPE)
    if r.returncode != 0:
        return f + [("profile-unreadable", "the repository's profile reader rejects the file: %s" % r.stderr.decode(errors="replace")[:200])]
    counts = {}
    for line in r.stdout.decode().splitlines():
        name, n = line.rsplit("\t", 1)
        counts[name] = int(n)
    # (ii) reported tuple count == number of tuples the relation holds at the end (= tuples written)
    confirmed = None
    for rel, lines in res["outputs"].items():
        if rel not in counts:
            f.append(("profile-relation-missing:" + rel, "output relation %s is not reported in the profile" % rel))
        elif counts[rel] != len(lines):
            if w.origin == "corpus":
                # corpus programs may hold symbols with embedded newlines, so the number of lines written is not the number of
                # tuples held: a mismatch counts only if .printsize confirms the size (otherwise it is not judged)
                if confirmed is None:
                    confirmed = psim.held_sizes(w, [r_ for r_ in res["outputs"]]) or {}
                if confirmed.get(rel) != len(lines):
                    continue
            # own class for the shape recorded in known_findings.json: a relation that is loaded from facts and also has a
            # non-recursive rule (the profile then reports only the tuples produced by the rule)
            # (exactly: the reported number is the number of tuples held minus the number of loaded ones)
            nloaded = len(set(tuple(t) for t in w.facts.get(rel, [])))
            known_shape = rel in w.meta.get("input_derived_nonrec", []) and counts[rel] == len(lines) - nloaded
            cls = "profile-count-input-derived:" if known_shape else "profile-count:"
            if rel in w.meta.get("limitsize_chain", []) and counts[rel] == len(lines) + 1:
                # second recorded defect: a .limitsize relation that grows by one tuple per iteration is over-reported by exactly
                # the one tuple of the last @new relation, which is counted but never merged
                cls = "profile-count-limitsize:"
            f.append((cls + rel, "profile reports %d tuples for %s, the relation holds %d" % (counts[rel], rel, len(lines))))
    return f

"""C21 — the C++ embedding API is consistent with file-based runs.

A generic driver (apisim/driver.cpp, only SouffleInterface.h) is linked with each synthesised program and simrt; it interprets a
seeded script of API calls, run() executing its parallel regions under the scheduler.  A sequential reference model of the program
instance predicts every result; `run` is modelled by the *file-based* execution of the stand-alone binary of the same program on the
same tuples."""
import concurrent.futures as cf
import hashlib
import json
import os
import random
import shutil
import subprocess
import threading
import time

from . import props_psim as P
from . import psim
from .common import BUILD, NCPU, REPO, VERIF, base_seed, finish, log, match_known, write_evidence
from .dsim import ddmin
from .psim import Workload

A_API = P.A_PSIM + [
    "non-input relations are purged before every re-run (otherwise results of non-monotone programs are not determined by the inputs); "
    "after a run on a dirty instance the outputs are treated as unknown and not checked",
    "relations with record/ADT columns are outside the driver's tuple interface and are only checked through printAll()",
]

DRIVER = os.path.join(VERIF, "apisim", "driver.cpp")


def gen_script(w, rng, maxops=40):
    """A seeded API history over the program's input facts. Returns list of op tuples (strings)."""
    aux = w.meta.get("aux_inputs", {})  # further fact files of relations with several .input directives
    facts = {}
    for n, rows in w.facts.items():
        facts.setdefault(aux.get(n, n), []).extend(rows)
    allf = [(n, t) for n, rows in facts.items() for t in rows]
    rng.shuffle(allf)
    outs = list(w.meta.get("outputs", []))
    ops = []
    ops.append(("threads", str(rng.choice([1, 2, 3, 4, 8]))))
    # phase 1: insert a prefix of the facts, run, look
    cut = rng.randrange(1, max(2, len(allf)))
    first, rest = allf[:cut], allf[cut:]
    budget = maxops

    def ins(batch):
        for n, t in batch:
            ops.append(("insert", n) + tuple(t))

    def look(k):
        for _ in range(k):
            x = rng.random()
            rel = rng.choice(outs + list(facts)) if outs else rng.choice(list(facts))
            if x < 0.5:
                ops.append(("dump", rel))
            elif x < 0.7:
                ops.append(("size", rel))
            else:
                ops.append(("contains?", rel))  # resolved against the model when the script is finalised

    ins(first)
    ops.append(("run",))
    look(rng.randrange(2, 6))
    choice = rng.randrange(12)
    if choice >= 10:
        # loadAll(): every .input directive of every relation is read from the fact directory, on top of what the instance holds
        if choice == 11:
            ops += [("purgein",), ("purgeout",), ("purgeinternal",)]
            ops += [("loadall",), ("run",)]
        else:
            ops += [("purgeout",), ("purgeinternal",), ("loadall",), ("run",)]
        look(rng.randrange(3, 7))
    elif choice >= 8 and rest:
        # the file-based entry point first (runAll with I/O), then purge everything and continue through the API on the same
        # instance with other inputs: the later run() must neither load nor store anything
        ops += [("purgein",), ("purgeout",), ("purgeinternal",), ("runall",)]
        look(rng.randrange(1, 4))
        ops += [("purgein",), ("purgeout",), ("purgeinternal",)]
        ins(rest[: rng.randrange(1, len(rest) + 1)])
        ops.append(("run",))
        look(rng.randrange(2, 6))
    elif choice >= 6 and rest:
        # a second, independent instance of the same program with other inputs; the first must be unaffected
        ops.append(("instance", "1"))
        ops.append(("threads", str(rng.choice([1, 2, 4]))))
        ins(rest[: rng.randrange(1, len(rest) + 1)])
        ops.append(("run",))
        look(rng.randrange(2, 5))
        ops.append(("instance", "0"))
        look(rng.randrange(2, 5))
        if choice == 7:
            ops += [("purgeout",), ("purgeinternal",), ("run",)]
            look(2)
            ops.append(("instance", "1"))
            look(2)
    elif choice >= 4 and rest:
        # purge everything, insert a *different* input set (not a superset of the first), re-run: results must be those of
        # the new inputs alone (nothing of the purged generation may survive in any index)
        ops += [("purgein",), ("purgeout",), ("purgeinternal",)]
        second = rest[: rng.randrange(1, len(rest) + 1)]
        if choice == 5:
            second = second + first[: len(first) // 3]
        ins(second)
        ops.append(("run",))
        look(rng.randrange(2, 6))
    elif choice == 0 and rest:
        # grow the input, purge derived relations, re-run
        ins(rest[: rng.randrange(1, len(rest) + 1)])
        ops += [("purgeout",), ("purgeinternal",), ("run",)]
        look(rng.randrange(2, 5))
    elif choice == 1:
        # purge everything, re-insert the same tuples, re-run: same results
        ops += [("purgein",), ("purgeout",), ("purgeinternal",)]
        look(1)
        ins(first)
        ops.append(("threads", str(rng.choice([1, 2, 4, 16]))))
        ops.append(("run",))
        look(rng.randrange(2, 5))
    elif choice == 2:
        # re-run on a dirty instance after purging only the outputs, then a clean re-run
        ops += [("purgeout",), ("run",)]
        look(1)
        ops += [("purgeout",), ("purgeinternal",), ("run",)]
        look(rng.randrange(2, 4))
    else:
        ops.append(("printall",))
        ops += [("purge", rng.choice(outs))] if outs else []
        look(2)
    return ops


class Model:
    """sequential reference model of one program instance"""

    def __init__(self, w, ref_fn):
        self.w, self.ref_fn = w, ref_fn
        self.aux = w.meta.get("aux_inputs", {})
        self.inputs = {n: set() for n in w.facts if n not in self.aux}
        self.rels = {}      # known contents of non-input relations (lists of CSV lines), None = unknown
        self.dirty = False  # non-input relations may hold tuples of an earlier run
        self.known = True

    def contents(self, rel):
        if rel in self.inputs:
            if rel in self.w.meta.get("eqrel_inputs", ()):
                # eqrel storage: the reflexive, symmetric and transitive closure of the inserted pairs
                parent = {}

                def find(x):
                    while parent.setdefault(x, x) != x:
                        parent[x] = parent[parent[x]]
                        x = parent[x]
                    return x
                for a, b in self.inputs[rel]:
                    parent[find(a)] = find(b)
                cls = {}
                for x in list(parent):
                    cls.setdefault(find(x), []).append(x)
                return set("%s\t%s" % (a, b) for members in cls.values() for a in members for b in members)
            return set("\t".join(t) for t in self.inputs[rel])
        if not self.known:
            return None
        return self.rels.get(rel, set())

    def apply(self, op):
        k = op[0]
        if k == "insert":
            self.inputs[op[1]].add(tuple(op[2:]))
        elif k == "loadall":
            for n, rows in self.w.facts.items():
                self.inputs[self.aux.get(n, n)] |= set(tuple(t) for t in rows)
            self._p_purgeout = self._p_purgeinternal = False
        elif k in ("run", "runall"):
            if k == "runall":
                # file-based entry point: the program's own fact files are loaded on top of what the instance holds
                for n, rows in self.w.facts.items():
                    self.inputs[self.aux.get(n, n)] |= set(tuple(t) for t in rows)
            if self.dirty:
                self.known = False  # results of a run on a dirty instance are not determined by the inputs alone
            else:
                out = self.ref_fn({n: sorted(v) for n, v in self.inputs.items()})
                self.rels = {r: set(l.decode() for l in lines) for r, lines in out.items()}
                self.known = True
            self.dirty = True
        elif k == "purgein":
            for n in self.inputs:
                self.inputs[n] = set()
        elif k in ("purgeout", "purgeinternal"):
            if k == "purgeout":
                # relations that are both input and output are output relations too
                for n in self.w.meta.get("io_rels", ()):
                    self.inputs[n] = set()
            setattr(self, "_p_" + k, True)
            if getattr(self, "_p_purgeout", False) and getattr(self, "_p_purgeinternal", False):
                self.dirty = False
                self.known = True
                self.rels = {}
        elif k == "purge":
            if op[1] in self.inputs:
                self.inputs[op[1]] = set()
            elif self.known:
                self.rels[op[1]] = set()
        if k in ("run", "runall", "insert"):
            self._p_purgeout = self._p_purgeinternal = False


class MultiModel:
    """several independent program instances; 'instance K' switches the current one"""

    def __init__(self, w, ref_fn):
        self.w, self.ref_fn = w, ref_fn
        self.models = [Model(w, ref_fn)]
        self.cur = 0

    @property
    def known(self):
        return self.models[self.cur].known

    @property
    def rels(self):
        return self.models[self.cur].rels

    def contents(self, rel):
        return self.models[self.cur].contents(rel)

    def apply(self, op):
        if op[0] == "instance":
            k = int(op[1])
            while len(self.models) <= k:
                self.models.append(Model(self.w, self.ref_fn))
            self.cur = k
            return
        self.models[self.cur].apply(op)


def finalise(script, model_factory, rng):
    """resolve 'contains?' placeholders against the model (half present, half absent probes)"""
    m = model_factory()
    out = []
    for op in script:
        if op[0] == "contains?":
            c = m.contents(op[1])
            if c and c != {"()"}:
                if rng.random() < 0.6:
                    out.append(("contains", op[1]) + tuple(rng.choice(sorted(c)).split("\t")))
                else:
                    # an absent probe: one column replaced by a value no generated fact or derived tuple uses
                    t = rng.choice(sorted(c)).split("\t")
                    j = rng.randrange(len(t))
                    try:
                        float(t[j])
                        numeric = True
                    except ValueError:
                        numeric = False
                    # (symbol columns never hold numerals in the generated programs, so a numeral is a number/unsigned/float column)
                    t[j] = str(770000 + rng.randrange(1000)) if numeric and t[j] != "" else t[j] + "#absent"
                    if "\t".join(t) not in c:
                        out.append(("contains", op[1]) + tuple(t))
            continue
        m.apply(op)
        out.append(op)
    return out


def expected_and_check(script, model_factory, stdout, printall_dir):
    """walk the driver's output against the model; returns list of (cls, msg)"""
    fails = []
    m = model_factory()
    lines = stdout.split("\n")
    pos = 0

    def next_op():
        nonlocal pos
        while pos < len(lines) and not lines[pos].startswith("op "):
            pos += 1
        if pos >= len(lines):
            return None
        l = lines[pos]
        pos += 1
        return l

    for i, op in enumerate(script):
        l = next_op()
        if l is None:
            fails.append(("api-truncated", "driver output ends before op %d (%s)" % (i + 1, op[0])))
            break
        parts = l.split(" ")
        res = parts[3:] if len(parts) > 3 else []
        k = op[0]
        before = m.contents(op[1]) if len(op) > 1 and k in ("dump", "size", "contains") else None
        if k == "dump":
            rows = []
            while pos < len(lines) and lines[pos].startswith("row\t"):
                rows.append(lines[pos][4:])
                pos += 1
            if res and res[0] in ("unsupported", "norel", "badargs"):
                m.apply(op)
                continue
            if not res:
                fails.append(("api-dump-malformed", "no result for dump %s" % op[1]))
                continue
            if before is not None and before == {"()"}:
                before = {""}  # a nullary relation: the CSV writer prints "()", the API yields one empty tuple
            cnt = int(res[0])
            size = int(res[1].split("=")[1])
            member = int(res[2].split("=")[1])
            if cnt != size:
                fails.append(("api-size-vs-iteration:" + op[1], "size() of %s is %d but iteration yields %d tuples" % (op[1], size, cnt)))
            if not member:
                fails.append(("api-contains-vs-iteration:" + op[1], "an iterated tuple of %s is not contained" % op[1]))
            if len(set(rows)) != len(rows):
                fails.append(("api-iteration-duplicate:" + op[1], "iteration of %s lists a tuple twice" % op[1]))
            if before is not None and set(rows) != before:
                fails.append(("api-content:" + op[1], "after op %d relation %s holds %d tuples through the API, the file-based run / inserted set has %d "
                              "(missing %s, extra %s)" % (i + 1, op[1], len(set(rows)), len(before), sorted(before - set(rows))[:2],
                                                          sorted(set(rows) - before)[:2])))
        elif k == "size":
            if res and res[0] not in ("unsupported", "norel", "badargs") and before is not None and int(res[0]) != len(before):
                fails.append(("api-size:" + op[1], "size() of %s is %s, model %d" % (op[1], res[0], len(before))))
        elif k == "contains":
            if res and res[0] in ("0", "1") and before is not None:
                want = "\t".join(op[2:]) in before
                if (res[0] == "1") != want:
                    fails.append(("api-contains:" + op[1], "contains(%s) on %s returned %s, model says %s" % (",".join(op[2:]), op[1], res[0], want)))
        elif k == "printall":
            m.apply(op)
            if m.known and printall_dir and os.path.isdir(printall_dir):
                got = psim.read_outputs(printall_dir)
                for rel, lines_ in got.items():
                    want = m.rels.get(rel)
                    if want is not None and set(x.decode() for x in lines_) != want:
                        fails.append(("api-printall:" + rel, "printAll() writes %d tuples for %s, the file-based run %d" % (len(lines_), rel, len(want))))
            continue
        m.apply(op)
    return fails


class ApiProgram:
    def __init__(self, w, exe):
        self.w, self.exe = w, exe
        self.standalone = None
        self.api = None
        self.cache = {}
        self.lock = threading.Lock()

    def build(self):
        self.standalone = P.build_compiled(self.exe, self.w)
        if not self.standalone:
            return False
        self.api = P.build_compiled(self.exe, self.w, extra_src=DRIVER, extra_flags=["-D__EMBEDDED_SOUFFLE__"])
        return self.api is not None

    def reference(self, inputs):
        key = hashlib.sha1(json.dumps(inputs, sort_keys=True).encode()).hexdigest()
        with self.lock:
            if key in self.cache:
                return self.cache[key]
        d = psim.tmpdir("apiref")
        os.makedirs(os.path.join(d, "facts"))
        os.makedirs(os.path.join(d, "out"))
        for n in self.w.facts:
            with open(os.path.join(d, "facts", n + ".facts"), "w") as f:
                for t in inputs.get(n, []):
                    f.write("\t".join(t) + "\n")
        env = dict(os.environ)
        env["VERIF_SIM_SEED"] = "0"
        subprocess.run([self.standalone, "-j1", "-F", os.path.join(d, "facts"), "-D", os.path.join(d, "out")], stdout=subprocess.DEVNULL,
                       stderr=subprocess.DEVNULL, env=env, timeout=300)
        out = psim.read_outputs(os.path.join(d, "out"))
        shutil.rmtree(d, ignore_errors=True)
        with self.lock:
            self.cache[key] = out
        return out

    def run_script(self, script, seed, faults, record=None, replay=None, tick=None):
        d = psim.tmpdir("api")
        pa = os.path.join(d, "printall")
        os.makedirs(pa)
        sp = os.path.join(d, "script.txt")
        with open(sp, "w") as f:
            for op in script:
                o = list(op)
                if o[0] == "printall":
                    o = ["printall", pa]
                if o[0] == "runall":
                    o = ["runall", os.path.join(self.w.dir, "facts"), pa]
                if o[0] == "loadall":
                    o = ["loadall", os.path.join(self.w.dir, "facts")]
                f.write("\t".join(o) + "\n")
        stats_path = os.path.join(d, "_sim.json")
        env = dict(os.environ)
        env.update({"VERIF_SIM_SEED": str(seed), "VERIF_SIM_OUT": stats_path, "VERIF_SIM_FAULTS": str(faults), "VERIF_SIM_OMP": "4",
                    "VERIF_SIM_RECORD": "1" if record else "0"})
        if record:
            env["VERIF_SIM_DECISIONS"] = record
        if replay:
            env["VERIF_SIM_REPLAY"] = replay
        cpu = psim._cpu_q.get()
        t0 = time.time()
        try:
            p = subprocess.run(["taskset", "-c", str(cpu), self.api, "prog", sp], stdout=subprocess.PIPE, stderr=subprocess.PIPE, env=env, timeout=600, cwd=d)
            rc, so, se = p.returncode, p.stdout.decode(errors="replace"), p.stderr.decode(errors="replace")
        except subprocess.TimeoutExpired:
            rc, so, se = -999, "", "timeout"
        finally:
            psim._cpu_q.put(cpu)
        stats = {}
        try:
            stats = json.load(open(stats_path))
        except Exception:
            pass
        return {"rc": rc, "stdout": so, "stderr": se[-1500:], "stats": stats, "outdir": d, "printall": pa, "wall": time.time() - t0}

    def judge(self, script, res):
        f = psim.basic_failures(None, res)
        if f:
            return f
        return expected_and_check(script, lambda: MultiModel(self.w, self.reference), res["stdout"], res["printall"])


def check_c21(tier):
    prop = "C21"
    t0 = time.time()
    exe, bs = psim.build_simsouffle()
    if exe is None:
        return finish(prop, [], [], ["instrumented build failed"])
    total = float(os.environ.get("VERIF_BUDGET_S", 150 if tier == "quick" else 20 * 60))
    nprog = 4 if tier == "quick" else 24
    hist_per_prog = 12 if tier == "quick" else 120
    sched_per_hist = 3
    seeds = P.seeds_for(prop)
    progs = []
    lock = threading.Lock()
    results, failures, samples, invalid = [], [], [], []

    def work(seed):
        w = P.gen_workload("c21", seed, "quick")  # C03 fragment without eqrel; every IDB relation is an output
        w.wid = "c21:%d" % seed
        w.materialise()
        ap = ApiProgram(w, exe)
        if not ap.build():
            with lock:
                invalid.append(w.wid)
            return
        rng = random.Random(seed * 31 + base_seed())
        deadline = time.time() + total / max(1.0, nprog / float(NCPU))  # the clock starts when this program is built
        for h in range(hist_per_prog):
            if time.time() > deadline:
                break
            raw = gen_script(w, rng)
            script = finalise(raw, lambda: MultiModel(w, ap.reference), rng)
            for s in range(sched_per_hist):
                if time.time() > deadline:
                    break
                sd = rng.randrange(1, 1 << 40)
                faults = psim.SCHED_FAULTS | (psim.PORT_FAULTS if s == 2 else 0)
                res = ap.run_script(script, sd, faults)
                fails = ap.judge(script, res)
                st = res["stats"]
                rec = {"wid": w.wid, "mode": "api", "n": 0, "seed": sd, "faults": faults, "ok": not fails, "steps": st.get("steps", 0),
                       "switches": st.get("switches", 0), "preempt": st.get("preemptions", 0), "hash": st.get("hash"), "sim_ns": st.get("sim_ns", 0),
                       "regions": st.get("regions", 0), "max_tasks": st.get("max_tasks", 0), "strategy": st.get("strategy"), "plain": st.get("plain_period"),
                       "fault_counts": st.get("faults", {}), "kinds": st.get("kinds", []), "probes": st.get("probes", {}), "wall": res["wall"],
                       "ops": len(script), "runs_in_script": sum(1 for o in script if o[0] == "run")}
                with lock:
                    results.append(rec)
                    if fails:
                        failures.append({"ap": ap, "script": script, "seed": sd, "faults": faults, "fails": fails})
                    if len(samples) < 2:
                        samples.append({"program": w.wid, "script_head": ["\t".join(o) for o in script[:12]], "ops": len(script), "seed": sd,
                                        "steps": st.get("steps"), "parallel_regions": st.get("regions")})
                shutil.rmtree(res["outdir"], ignore_errors=True)
        with lock:
            progs.append(w.wid)

    with cf.ThreadPoolExecutor(NCPU) as ex:
        list(ex.map(work, [next(seeds) for _ in range(nprog)]))

    violations, known_lines, mfaults = [], [], []
    byclass = {}
    for f in failures:
        byclass.setdefault(f["fails"][0][0].split(":")[0], f)
    for cls0, f in sorted(byclass.items()):
        cls, msg = f["fails"][0]
        kf = match_known(prop, cls, msg, f["ap"].w.wid)
        if kf:
            known_lines.append("KNOWN-FINDING: property=%s %s" % (prop, kf.get("what", cls)))
            continue
        if len(violations) >= 2:
            continue
        path, mf = minimise_api(prop, f, tier)
        if path:
            violations.append(path)
            log("violation: %s: %s" % (cls, msg))
        elif mf:
            mfaults.append(mf)
    wall = time.time() - t0
    exp = psim.Explorer(prop, exe, tier, None, A_API)
    exp.results = results
    exp.samples = samples
    exp.workloads_done = len(progs)
    exp.failures = failures
    exp.invalid_workloads = [(x, "build", "") for x in invalid]
    cov = exp.coverage(wall, bs, {"histories": len(results) // max(1, sched_per_hist), "api_operations_checked": sum(r["ops"] for r in results),
                                  "run_calls_under_scheduler": sum(r["runs_in_script"] for r in results)})
    cov["rule"] = ("one evaluation = one API history (<=40 calls: insert, run, contains, iterate, size, purge, setNumThreads, printAll) executed against a "
                   "synthesised program with run() under a seeded schedule and checked call by call against the reference model; non-trivial = run() "
                   "executed a parallel region with >=2 tasks and >=1 preemption; distinct = distinct (program, event hash)")
    write_evidence(prop, tier, base_seed(), cov, wall, len(violations), A_API)
    log("%s: %d histories x schedules over %d programs, %d failing, %.0fs" % (prop, len(results), len(progs), len(failures), wall))
    shutil.rmtree(os.path.join(BUILD, "tmp", "psim_%d" % os.getpid()), ignore_errors=True)
    if not results and not violations:
        mfaults.append("no API history completed")
    return finish(prop, violations, known_lines, mfaults)


def minimise_api(prop, f, tier):
    ap, script, seed, faults = f["ap"], f["script"], f["seed"], f["faults"]
    cls = f["fails"][0][0]

    def fails_with(sc, **kw):
        res = ap.run_script(sc, seed, faults, **kw)
        ff = ap.judge(sc, res)
        h = res["stats"].get("hash")
        shutil.rmtree(res["outdir"], ignore_errors=True)
        return cls in [x[0] for x in ff], h, ff

    a, h1, _ = fails_with(script)
    b, h2, _ = fails_with(script)
    if cls == "hang" and not a and not b:
        return None, None
    if not a or not b or h1 != h2:
        return None, "API history failure %s not reproducible (hashes %s / %s)" % (cls, h1, h2)
    deadline = time.time() + (120 if tier == "quick" else 400)
    idx = list(range(len(script)))
    kept, _ = ddmin(idx, lambda ks: fails_with([script[i] for i in ks])[0], max_runs=80, deadline=deadline)
    sc = [script[i] for i in kept]
    ok, h, ff = fails_with(sc)
    if not ok:
        sc = script
        ok, h, ff = fails_with(sc)
    msg = [x[1] for x in ff if x[0] == cls]
    rp = {"property": prop, "kind": "apisim", "cls": cls, "msg": msg[0] if msg else "", "expected_hash": h, "workload": ap.w.to_json(),
          "script": ["\t".join(o) for o in sc], "seed": seed, "faults": faults, "ops_before": len(script), "ops_after": len(sc),
          "how": "./check C21 --replay <this file>"}
    from .common import findings_dir
    outdir = findings_dir(prop)
    path = os.path.join(outdir, "apisim_%s.replay.json" % hashlib.sha1((ap.w.wid + str(seed)).encode()).hexdigest()[:10])
    with open(path, "w") as fo:
        json.dump(rp, fo, indent=1)
    return path, None


def replay_c21(path):
    exe, _ = psim.build_simsouffle()
    if exe is None:
        return 2
    rp = json.load(open(path))
    w = Workload.from_json(rp["workload"])
    w.origin = "generated"
    w.materialise()
    ap = ApiProgram(w, exe)
    if not ap.build():
        log("cannot build the program of the replay file")
        return 2
    script = [tuple(l.split("\t")) for l in rp["script"]]
    res = ap.run_script(script, rp["seed"], rp["faults"])
    ff = ap.judge(script, res)
    if rp["cls"] in [x[0] for x in ff]:
        print("VIOLATION property=C21 replay=%s" % path, flush=True)
        return 1
    log("replay did not reproduce the recorded violation (got %s)" % [x[0] for x in ff])
    return 0

"""Shared helpers for the /verif check orchestrators (stdlib only)."""
import json
import os
import subprocess
import sys
import time

VERIF = os.path.dirname(os.path.dirname(os.path.abspath(__file__)))
REPO = os.environ.get("VERIF_REPO", "/repo")
BUILD = os.environ.get("VERIF_BUILD", os.path.join(VERIF, "build"))
# number of simulated processes in flight and the first CPU they are pinned to (a sweep can be confined to a subset of the cores)
NCPU = int(os.environ.get("VERIF_WORKERS", os.cpu_count() or 16))
CPU0 = int(os.environ.get("VERIF_CPU_OFFSET", "0"))


def log(*a):
    print(*a, file=sys.stderr, flush=True)


def base_seed():
    try:
        return int(os.environ.get("VERIF_SEED", "1"), 0)
    except ValueError:
        return 1


def findings_dir(prop):
    d = os.path.join(os.environ.get("VERIF_FINDINGS_DIR", os.path.join(VERIF, "findings")), prop)
    os.makedirs(d, exist_ok=True)
    return d


def load_known_findings():
    p = os.path.join(VERIF, "known_findings.json")
    if not os.path.exists(p):
        return {"known": [], "fixed": []}
    with open(p) as f:
        return json.load(f)


def match_known(prop, cls, msg, extra=None):
    """Return the known-finding entry that covers this violation, or None.
    An entry matches on property + violation class and (optionally) a substring of the message /
    a key of the failing input, so that a different violation of the same property is still reported."""
    kf = load_known_findings()
    for e in kf.get("known", []):
        if e.get("property") != prop:
            continue
        if e.get("cls") and e["cls"] != cls:
            continue
        if e.get("cls_prefix") and not (cls or "").startswith(e["cls_prefix"]):
            continue
        if e.get("msg_contains") and e["msg_contains"] not in (msg or ""):
            continue
        if e.get("input_contains") and e["input_contains"] not in (extra or ""):
            continue
        return e
    return None


def write_evidence(prop, tier, seed, coverage, wall_s, violations, assumptions, level="exploration"):
    evdir = os.environ.get("VERIF_EVIDENCE_DIR", os.path.join(VERIF, "evidence"))  # sensitivity runs on mutated trees write elsewhere
    os.makedirs(evdir, exist_ok=True)
    ev = {
        "property_id": prop,
        "tier": tier,
        "seed": seed,
        "level": level,
        "coverage": coverage,
        "assumptions": assumptions,
        "wall_s": round(wall_s, 2),
        "violations": violations,
    }
    p = os.path.join(evdir, prop + ".json")
    tmp = p + ".tmp.%d" % os.getpid()
    with open(tmp, "w") as f:
        json.dump(ev, f, indent=1, sort_keys=True)
        f.write("\n")
    os.replace(tmp, p)
    return p


def run(cmd, timeout=None, env=None, cwd=None):
    e = dict(os.environ)
    if env:
        e.update(env)
    return subprocess.run(cmd, stdout=subprocess.PIPE, stderr=subprocess.PIPE, text=True, timeout=timeout, env=e, cwd=cwd)


def finish(prop, violations, known_lines, machinery_faults):
    """Print the verdict lines and return the exit code."""
    for k in known_lines:
        print(k, flush=True)
    for v in violations:
        print("VIOLATION property=%s replay=%s" % (prop, v), flush=True)
    if violations:
        return 1
    if machinery_faults:
        for m in machinery_faults:
            log("MACHINERY-FAULT:", m)
        return 2
    return 0

"""Orchestrator for the data-structure simulation harnesses (dsim).

build -> run 16 pinned worker processes over disjoint seed sequences -> collect one JSON line per simulated run
-> for every violation class: determinism gate, workload ddmin, schedule ddmin, replay file, fresh-process replay
-> evidence file -> exit code.
"""
import json
import os
import selectors
import subprocess
import time

from .common import BUILD, CPU0, NCPU, REPO, VERIF, base_seed, finish, log, match_known, run, write_evidence

QUICK_S = 45
THOROUGH_S = 15 * 60
HANG_S = 300


VARIANT_BUILDS = {"btree_seq": ("btree", ["--out", "btree_seq", "-fno-openmp"])}


def build(harness, extra_flags=()):
    t0 = time.time()
    src = harness
    if harness in VARIANT_BUILDS and not extra_flags:
        src, extra_flags = VARIANT_BUILDS[harness]
    r = run([os.path.join(VERIF, "dsim", "build.sh"), src] + list(extra_flags), timeout=1800)
    if r.returncode != 0:
        log(r.stdout[-3000:])
        log(r.stderr[-6000:])
        return None, time.time() - t0
    return os.path.join(BUILD, "dsim", harness), time.time() - t0


class Worker:
    def __init__(self, exe, idx, start, stride, budget_s, tier, extra):
        self.exe, self.idx, self.start, self.stride, self.tier, self.extra = exe, idx, start, stride, tier, extra
        self.deadline = time.time() + budget_s
        self.cur = None  # seed announced by START without a result yet
        self.next_seed = start
        self.proc = None
        self.buf = b""
        self.last_out = time.time()
        self.done = False
        self.spawn()

    def spawn(self):
        remaining = self.deadline - time.time()
        if remaining <= 0.5:
            self.done = True
            self.proc = None
            return
        cmd = [self.exe, "--batch", str(self.next_seed), str(10**9), "--stride", str(self.stride), "--cpu", str(CPU0 + self.idx % NCPU),
               "--tier", self.tier, "--budget-s", "%.1f" % remaining] + self.extra
        self.proc = subprocess.Popen(cmd, stdout=subprocess.PIPE, stderr=subprocess.DEVNULL)
        os.set_blocking(self.proc.stdout.fileno(), False)
        self.last_out = time.time()
        self.cur = None


def explore(exe, tier, budget_s, extra=()):
    """Run the workers; returns (results, synthetic_failures)."""
    nw = NCPU
    base = base_seed() * 1000003 * 1000
    sel = selectors.DefaultSelector()
    workers = []
    for i in range(nw):
        w = Worker(exe, i, base + i, nw, budget_s, tier, list(extra))
        workers.append(w)
        if w.proc:
            sel.register(w.proc.stdout, selectors.EVENT_READ, w)
    results = []
    alive = sum(1 for w in workers if w.proc)

    def handle_line(w, line):
        if line.startswith(b"START "):
            w.cur = int(line.split()[1])
        elif line.startswith(b"{"):
            try:
                r = json.loads(line)
            except Exception:
                return
            results.append(r)
            if w.cur is not None and r.get("seed") == w.cur:
                w.next_seed = w.cur + w.stride
                w.cur = None
            elif r.get("fatal") and "seed" in r:
                w.next_seed = r["seed"] + w.stride
                w.cur = None
        elif line.startswith(b"END"):
            w.done = True

    def reap(w, why):
        """worker died or hung: account for the seed in flight and restart after it"""
        nonlocal alive
        try:
            sel.unregister(w.proc.stdout)
        except Exception:
            pass
        rc = w.proc.poll()
        if rc is None:
            # ask politely first: the harness reports the seed in flight from its SIGTERM handler
            w.proc.terminate()
            try:
                w.proc.wait(timeout=3)
                data = w.proc.stdout.read()
                if data:
                    for line in (w.buf + data).split(b"\n"):
                        handle_line(w, line)
                    w.buf = b""
            except Exception:
                w.proc.kill()
                w.proc.wait()
            rc = "killed"
        w.proc.stdout.close()
        if not w.done and w.cur is not None:
            # no result line was written for the seed in flight
            results.append({"seed": w.cur, "ok": False, "fatal": True, "faults_on": -1, "cls": "hang" if why == "hang" else "crash:exit%s" % rc,
                            "msg": "worker %s without a result line" % why})
            w.next_seed = w.cur + w.stride
        if w.done:
            alive -= 1
            w.proc = None
            return
        w.spawn()
        if w.proc:
            sel.register(w.proc.stdout, selectors.EVENT_READ, w)
        else:
            alive -= 1

    while alive > 0:
        events = sel.select(timeout=1.0)
        now = time.time()
        for key, _ in events:
            w = key.data
            try:
                data = w.proc.stdout.read()
            except Exception:
                data = None
            if data:
                w.last_out = now
                w.buf += data
                while b"\n" in w.buf:
                    line, w.buf = w.buf.split(b"\n", 1)
                    handle_line(w, line)
            elif data == b"" or w.proc.poll() is not None:
                # EOF
                reap(w, "exited")
        for w in workers:
            if w.proc is None:
                continue
            if w.proc.poll() is not None and w.proc.stdout.closed is False:
                # drain and reap
                try:
                    data = w.proc.stdout.read()
                except Exception:
                    data = None
                if data:
                    w.buf += data
                    while b"\n" in w.buf:
                        line, w.buf = w.buf.split(b"\n", 1)
                        handle_line(w, line)
                reap(w, "exited")
            elif now - w.last_out > HANG_S:
                reap(w, "hang")
    return results


# ---------------------------------------------------------------------------------------- single runs / shrinking
def run_single(exe, seed, tier, faults_on, workload=None, decisions=None, emit_workload=None, emit_decisions=None, timeout=120):
    cmd = [exe, "--one", str(seed), "--tier", tier]
    if faults_on in (0, 1):
        cmd += ["--faults", str(faults_on)]
    if workload:
        cmd += ["--workload", workload]
    if decisions:
        cmd += ["--decisions", decisions]
    if emit_workload:
        cmd += ["--emit-workload", emit_workload]
    if emit_decisions:
        cmd += ["--emit-decisions", emit_decisions]
    try:
        r = subprocess.run(cmd, stdout=subprocess.PIPE, stderr=subprocess.DEVNULL, timeout=timeout)
    except subprocess.TimeoutExpired:
        return {"seed": seed, "ok": False, "fatal": True, "cls": "hang", "msg": "no result within %ds" % timeout}
    for line in r.stdout.decode(errors="replace").splitlines():
        if line.startswith("{"):
            try:
                return json.loads(line)
            except Exception:
                pass
    return {"seed": seed, "ok": False, "fatal": True, "cls": "crash:exit%d" % r.returncode, "msg": "process died without a result line"}


def parse_workload(text):
    params, phases = [], []
    for line in text.splitlines():
        t = line.split()
        if not t:
            continue
        if t[0] == "param":
            params.append(line)
        elif t[0] == "phase":
            phases.append({"kind": int(t[1]), "tasks": []})
        elif t[0] == "task":
            phases[-1]["tasks"].append([])
        elif t[0] == "op":
            phases[-1]["tasks"][-1].append(line)
    return params, phases


def render_workload(params, phases, keep=None):
    out = list(params)
    idx = 0
    for ph in phases:
        out.append("phase %d %d" % (ph["kind"], len(ph["tasks"])))
        for t in ph["tasks"]:
            ops = []
            for o in t:
                if keep is None or idx in keep:
                    ops.append(o)
                idx += 1
            out.append("task %d" % len(ops))
            out.extend(ops)
    return "\n".join(out) + "\n"


def ddmin(items, test, max_runs=250, deadline=None):
    """Classic ddmin over a list of items; test(subset_list) -> True if the failure persists."""
    runs = 0
    n = 2
    cur = list(items)
    while len(cur) >= 2 and runs < max_runs and (deadline is None or time.time() < deadline):
        chunk = max(1, len(cur) // n)
        subsets = [cur[i:i + chunk] for i in range(0, len(cur), chunk)]
        reduced = False
        for i in range(len(subsets)):
            comp = [x for j, s in enumerate(subsets) if j != i for x in s]
            runs += 1
            if test(comp):
                cur = comp
                n = max(n - 1, 2)
                reduced = True
                break
            if runs >= max_runs or (deadline is not None and time.time() > deadline):
                break
        if not reduced:
            if n >= len(cur):
                break
            n = min(len(cur), n * 2)
    return cur, runs


def minimise_and_gate(prop, harness, exe, tier, fail, tmpdir):
    """Determinism gate + minimisation + fresh-process replay for one failing run.
    Returns (replay_path or None, machinery_fault or None)."""
    seed, cls = fail["seed"], fail["cls"]
    fo = fail.get("faults_on", -1)
    os.makedirs(tmpdir, exist_ok=True)
    wl_path = os.path.join(tmpdir, "w_%d.txt" % seed)
    dec_path = os.path.join(tmpdir, "d_%d.txt" % seed)
    # gate 1: the same seed fails the same way, twice, in fresh processes
    a = run_single(exe, seed, tier, fo, emit_workload=wl_path, emit_decisions=dec_path)
    b = run_single(exe, seed, tier, fo)
    if cls == "hang" and a.get("ok") and b.get("ok"):
        # the watchdog killed a worker that was merely slow (loaded machine, large workload): not a verdict of any kind
        return None, None
    if a.get("ok") or b.get("ok") or a.get("cls") != cls or b.get("cls") != cls or a.get("hash") != b.get("hash"):
        return None, "seed %d: violation class %s not reproducible (got %s/%s hash %s/%s)" % (seed, cls, a.get("cls"), b.get("cls"), a.get("hash"), b.get("hash"))
    if fo == -1:
        fo = a.get("faults_on", -1)
    text = open(wl_path).read() if os.path.exists(wl_path) else ""
    params, phases = parse_workload(text)
    nops = sum(len(t) for ph in phases for t in ph["tasks"])
    deadline = time.time() + (60 if tier == "quick" else 240)
    cand_path = os.path.join(tmpdir, "c_%d.txt" % seed)

    def test_ops(keep_list):
        with open(cand_path, "w") as f:
            f.write(render_workload(params, phases, set(keep_list)))
        r = run_single(exe, seed, tier, fo, workload=cand_path, timeout=60)
        return (not r.get("ok")) and r.get("cls") == cls

    kept = list(range(nops))
    shrink_runs = 0
    if nops >= 2 and cls != "hang":
        kept, shrink_runs = ddmin(kept, test_ops, max_runs=200, deadline=deadline)
    final_wl = render_workload(params, phases, set(kept))
    with open(wl_path, "w") as f:
        f.write(final_wl)
    # record the schedule of the minimised workload
    r = run_single(exe, seed, tier, fo, workload=wl_path, emit_decisions=dec_path)
    if r.get("ok") or r.get("cls") != cls:
        # fall back to the unminimised workload
        final_wl = text
        with open(wl_path, "w") as f:
            f.write(final_wl)
        r = run_single(exe, seed, tier, fo, workload=wl_path, emit_decisions=dec_path)
        kept = list(range(nops))
    decisions = []
    if os.path.exists(dec_path):
        for line in open(dec_path):
            p = line.split()
            if len(p) == 2:
                decisions.append((int(p[0]), int(p[1])))
    dcand = os.path.join(tmpdir, "dc_%d.txt" % seed)

    def write_dec(path, dl):
        with open(path, "w") as f:
            for s, k in dl:
                f.write("%d %d\n" % (s, k))

    def test_dec(dl):
        write_dec(dcand, dl)
        rr = run_single(exe, seed, tier, fo, workload=wl_path, decisions=dcand, timeout=60)
        return (not rr.get("ok")) and rr.get("cls") == cls

    sched_runs = 0
    min_dec = decisions
    # schedule simplification only if replaying the recorded schedule reproduces the failure at all
    if decisions and cls != "hang" and test_dec(decisions):
        min_dec, sched_runs = ddmin(decisions, test_dec, max_runs=200, deadline=deadline + 60)
        # canonicalise: replay the minimised list and record what was actually executed
        write_dec(dcand, min_dec)
        rr = run_single(exe, seed, tier, fo, workload=wl_path, decisions=dcand, emit_decisions=dec_path)
        if (not rr.get("ok")) and rr.get("cls") == cls:
            min_dec = [tuple(map(int, l.split())) for l in open(dec_path) if len(l.split()) == 2]
            r = rr
        else:
            min_dec = decisions
        use_decisions = True
    else:
        use_decisions = False
    replay = {
        "property": prop, "harness": harness, "seed": seed, "tier": tier, "faults_on": fo,
        "cls": cls, "msg": r.get("msg", fail.get("msg", "")), "expected_hash": r.get("hash"),
        "workload": final_wl, "ops_before": nops, "ops_after": len(kept),
        "decisions": min_dec if use_decisions else None,
        "switches_before": len(decisions), "switches_after": len(min_dec) if use_decisions else None,
        "shrink_runs": shrink_runs + sched_runs,
        "strategy": r.get("strategy"), "how": "./check %s --replay <this file>" % prop,
    }
    from .common import findings_dir
    outdir = findings_dir(prop)
    path = os.path.join(outdir, "%s_%d.replay.json" % (harness, seed))
    with open(path, "w") as f:
        json.dump(replay, f, indent=1)
    # gate 2: the replay file reproduces in a fresh process
    ok, got = replay_file(path, exe)
    if not ok:
        return None, "seed %d: minimised replay file does not reproduce %s (got %s)" % (seed, cls, got)
    return path, None


def replay_file(path, exe=None):
    rp = json.load(open(path))
    harness = rp["harness"]
    if exe is None:
        exe, _ = build(harness)
        if exe is None:
            return False, "build failed"
    tmpdir = os.path.join(BUILD, "tmp", "replay_%d" % os.getpid())
    os.makedirs(tmpdir, exist_ok=True)
    wl = os.path.join(tmpdir, "w.txt")
    with open(wl, "w") as f:
        f.write(rp["workload"])
    dec = None
    if rp.get("decisions") is not None:
        dec = os.path.join(tmpdir, "d.txt")
        with open(dec, "w") as f:
            for s, k in rp["decisions"]:
                f.write("%d %d\n" % (s, k))
    r = run_single(exe, rp["seed"], rp.get("tier", "quick"), rp.get("faults_on", -1), workload=wl, decisions=dec)
    same = (not r.get("ok")) and r.get("cls") == rp["cls"]
    if same and rp.get("expected_hash") and r.get("hash") and r.get("hash") != rp["expected_hash"]:
        return False, "class reproduced but event hash differs (%s vs %s)" % (r.get("hash"), rp["expected_hash"])
    return same, r.get("cls") if not r.get("ok") else "ok"


# ---------------------------------------------------------------------------------------- evidence
def summarise(results, harnesses, tier, wall_s, build_s, extra_cov=None):
    aggs = [r for r in results if r.get("agg")]
    results = [r for r in results if not r.get("agg")]
    n = len(results) + sum(a["runs"] for a in aggs)
    good = [r for r in results if "steps" in r]
    nontrivial = [r for r in good if r.get("tasks", 0) >= 3 and r.get("preempt", 0) >= 1]
    hashes = set(r["hash"] for r in nontrivial)
    strategies, faults, probes, plain = {}, {}, {}, {}
    steps = switches = sim_ns = ops = checks = 0
    faults_on_runs = 0
    agg_nontrivial = agg_distinct = 0
    for a in aggs:
        steps += a["steps"]
        switches += a["switches"]
        sim_ns += a["sim_ns"]
        ops += a["ops"]
        checks += a["checks"]
        faults_on_runs += a["faults_on"]
        agg_nontrivial += a["nontrivial"]
        agg_distinct += a["new_distinct"]
        for k, v in a["strategies"].items():
            strategies[k] = strategies.get(k, 0) + v
        for k, v in a["plain"].items():
            plain[k] = plain.get(k, 0) + v
        for k, v in a["faults"].items():
            faults[k] = faults.get(k, 0) + v
        for k, v in a["probes"].items():
            e = probes.setdefault(k, [0, 0])
            e[0] += v[0]
            e[1] += v[1]
    for r in good:
        strategies[r["strategy"]] = strategies.get(r["strategy"], 0) + 1
        plain[str(r.get("plain"))] = plain.get(str(r.get("plain")), 0) + 1
        steps += r["steps"]
        switches += r["switches"]
        sim_ns += r["sim_ns"]
        ops += r.get("ops", 0)
        checks += r.get("checks", 0)
        faults_on_runs += 1 if r.get("faults_on") == 1 else 0
        for k, v in r.get("faults", {}).items():
            faults[k] = faults.get(k, 0) + v
        for k, v in r.get("probes", {}).items():
            e = probes.setdefault(k, [0, 0])
            e[0] += v
            e[1] += 1
    # saturation: share of new hashes in the last decile of nontrivial runs
    seen, last_new = set(), 0
    cut = int(len(nontrivial) * 0.9)
    for i, r in enumerate(nontrivial):
        if r["hash"] not in seen:
            seen.add(r["hash"])
            if i >= cut:
                last_new += 1
    samples = []
    for r in good[:3]:
        samples.append({k: r[k] for k in ("seed", "strategy", "plain", "steps", "switches", "preempt", "tasks", "nops", "hash", "faults_on") if k in r})
    cov = {
        "evaluations": n,
        "distinct_nontrivial": len(hashes),
        "rule": "one evaluation = one simulated run (seeded workload + seeded schedule) of the real data structure; non-trivial = >=2 simulated "
                "client tasks and >=1 preemption inside an operation; distinct = distinct event hash (sequence of (task, kind-of-schedule-point) "
                "plus operation results). distinct_nontrivial is counted exactly over the runs reported individually (the first 2000 per worker "
                "process, conservative lower bound); later runs are aggregated inside the workers, whose own per-worker distinct counts are "
                "summed in nontrivial_distinct_per_worker_sum (an upper bound of the union)",
        "nontrivial_runs_total": len(nontrivial) + agg_nontrivial,
        "nontrivial_distinct_per_worker_sum": agg_distinct,
        "samples": samples,
        "harnesses": harnesses,
        "runs_per_hour": int(n / max(wall_s, 1e-6) * 3600),
        "schedule_steps_total": steps,
        "context_switches_total": switches,
        "simulated_ns_total": sim_ns,
        "operations_executed": ops,
        "oracle_checks": checks,
        "per_strategy_runs": strategies,
        "plain_access_sampling_period_runs": plain,
        "runs_with_fault_injection_enabled": faults_on_runs,
        "fault_kinds_fired": faults,
        "reach_counters": {k: {"hits": v[0], "runs": v[1]} for k, v in sorted(probes.items())},
        "new_hash_share_last_decile": round(last_new / max(1, len(nontrivial) - cut), 4),
        "build_s": round(build_s, 1),
        "real_code": "the data structure and lock headers under /repo/src/include (unchanged, compiled with -fsanitize=thread instrumentation only)",
        "simulated": "thread scheduling (serialised, seeded), OpenMP runtime entry points, pthread mutex/rwlock blocking, clock",
    }
    if extra_cov:
        cov.update(extra_cov)
    return cov


def check(prop, harness_specs, tier, assumptions, expected_probes=()):
    """harness_specs: list of (harness_name, extra_build_flags, budget_share)."""
    t0 = time.time()
    total = QUICK_S if tier == "quick" else THOROUGH_S
    if os.environ.get("VERIF_BUDGET_S"):
        total = float(os.environ["VERIF_BUDGET_S"])
    all_results, violations, known_lines, faults_m = [], [], [], []
    build_s = 0.0
    exes = {}
    # build all harnesses first (in parallel)
    procs = []
    norm = []
    for name, flags, share in harness_specs:
        outname = flags[flags.index("--out") + 1] if "--out" in flags else name
        norm.append((outname, flags, share))
        procs.append((outname, subprocess.Popen([os.path.join(VERIF, "dsim", "build.sh"), name] + list(flags), stdout=subprocess.PIPE,
                                                stderr=subprocess.STDOUT, text=True)))
    harness_specs = norm
    for name, p in procs:
        out, _ = p.communicate()
        if p.returncode != 0:
            log(out[-8000:])
            faults_m.append("build of harness %s failed" % name)
        else:
            exes[name] = os.path.join(BUILD, "dsim", name)
    build_s = time.time() - t0
    if faults_m:
        write_evidence(prop, tier, base_seed(), {"evaluations": 0, "distinct_nontrivial": 0, "rule": "build failed", "samples": []}, time.time() - t0, 0,
                       assumptions)
        return finish(prop, [], [], faults_m)
    # regression corpus: replay files of defects that were repaired ("fixed:" entries of known_findings.json) must stay quiet
    import glob
    regress_run = 0
    for rp in sorted(glob.glob(os.path.join(VERIF, "regress", prop + "_*.replay.json"))):
        try:
            h = json.load(open(rp))["harness"]
        except Exception:
            continue
        if h not in exes:
            continue
        ok, got = replay_file(rp, exes[h])
        regress_run += 1
        if ok:
            log("regression: %s reproduces again (%s)" % (rp, got))
            violations.append(rp)
    per = {}
    for name, flags, share in harness_specs:
        res = explore(exes[name], tier, total * share)
        for r in res:
            r["harness"] = name
        per[name] = len(res)
        all_results.extend(res)
    fails = [r for r in all_results if not r.get("agg") and not r.get("ok")]
    # one representative (smallest workload, then lowest seed) per (harness, class)
    byclass = {}
    for r in fails:
        key = (r["harness"], r["cls"])
        if key not in byclass or (r.get("nops", 1 << 30), r["seed"]) < (byclass[key].get("nops", 1 << 30), byclass[key]["seed"]):
            byclass[key] = r
    reported = 0
    slow_killed = []
    for (hname, cls), r in sorted(byclass.items()):
        kf = match_known(prop, cls, r.get("msg", ""), hname)
        if kf:
            known_lines.append("KNOWN-FINDING: property=%s %s (%s, e.g. seed %d)" % (prop, kf.get("what", cls), cls, r["seed"]))
            continue
        if reported >= 3:
            continue
        path, mf = minimise_and_gate(prop, hname, exes[hname], tier, r, os.path.join(BUILD, "tmp", "shrink_%s" % prop))
        if path:
            violations.append(path)
            reported += 1
            log("violation: %s %s seed=%d: %s" % (hname, cls, r["seed"], r.get("msg", "")))
        elif mf:
            faults_m.append(mf)
        else:
            slow_killed.append(r["seed"])
    # written-out samples: the workload and the first scheduler decisions of a few explored runs
    written = []
    for name, flags, share in harness_specs:
        cand = [r for r in all_results if r.get("harness") == name and r.get("ok") and r.get("preempt", 0) >= 1 and "seed" in r][:2]
        for r in cand:
            sd = os.path.join(BUILD, "tmp", "sample_%s_%d" % (prop, os.getpid()))
            os.makedirs(sd, exist_ok=True)
            wl, dc = os.path.join(sd, "w.txt"), os.path.join(sd, "d.txt")
            rr = run_single(exes[name], r["seed"], tier, r.get("faults_on", -1), emit_workload=wl, emit_decisions=dc)
            try:
                written.append({"harness": name, "seed": r["seed"], "strategy": rr.get("strategy"), "steps": rr.get("steps"), "switches": rr.get("switches"),
                                "event_hash": rr.get("hash"), "workload_first_lines": open(wl).read().split("\n")[:25],
                                "first_decisions_step_rank": [l.split() for l in open(dc).read().split("\n")[:40] if l]})
            except Exception:
                pass
    wall = time.time() - t0
    cov = summarise(all_results, [h[0] for h in harness_specs], tier, wall, build_s,
                    {"runs_per_harness": per, "failing_runs": len(fails), "failure_classes": sorted(set(r["cls"] for r in fails)),
                     "regression_replays_run": regress_run, "slow_runs_killed_by_watchdog_but_passing_when_rerun": slow_killed})
    dead = [p for p in expected_probes if cov["reach_counters"].get(p, {}).get("hits", 0) == 0]
    cov["rare_branch_probes_never_hit"] = dead
    if dead and tier == "thorough" and not violations:
        faults_m.append("probes never hit in a thorough batch (workload or fault mix must change): %s" % dead)
    if written:
        cov["samples"] = written + cov["samples"][:1]
    write_evidence(prop, tier, base_seed(), cov, wall, len(violations), assumptions)
    log("%s: %d runs, %d distinct non-trivial, %d failing, %.0fs" % (prop, cov["evaluations"], cov["distinct_nontrivial"], len(fails), wall))
    return finish(prop, violations, known_lines, faults_m)


def replay(prop, path):
    ok, got = replay_file(path)
    if ok:
        print("VIOLATION property=%s replay=%s" % (prop, path), flush=True)
        return 1
    log("replay did not reproduce the recorded violation (got: %s)" % got)
    return 0

"""Whole-program simulation driver (psim): the real Soufflé interpreter (and synthesised programs) linked against simrt.

One simulated run = one process pinned to one CPU; 16 in flight.  A *case* is (workload, mode, thread count, seed, fault
configuration).  Oracles are plugged in per property.  Failures are gated (same case twice -> same class and event hash),
minimised (facts ddmin, rules ddmin, schedule ddmin over the recorded decisions) and written as replay files."""
import concurrent.futures as cf
import hashlib
import json
import os
import queue
import random
import shutil
import subprocess
import sys
import threading
import time

from .common import BUILD, CPU0, NCPU, REPO, VERIF, base_seed, finish, log, match_known, write_evidence
from .dsim import ddmin

sys.path.insert(0, os.path.join(VERIF, "psim"))

F_WEAK_CAS, F_TRYLOCK, F_TEAM_SHRINK, F_CHUNK_ORDER, F_TIMER_EARLY, F_LATE_START = (1 << i for i in range(6))
SCHED_FAULTS = F_TEAM_SHRINK | F_CHUNK_ORDER | F_LATE_START | F_TIMER_EARLY
PORT_FAULTS = F_WEAK_CAS | F_TRYLOCK
KIND_NAMES = ["", "atomic_load", "atomic_store", "atomic_rmw", "atomic_cas", "fence", "plain", "volatile", "lock", "trylock", "unlock", "rdlock", "wrlock",
              "cond_wait", "cond_signal", "yield", "spin", "fork", "join", "chunk", "barrier", "single", "critical", "sleep", "clock", "spawn", "exit", "user"]

_cpu_q = queue.Queue()
for _i in range(NCPU):
    _cpu_q.put(CPU0 + _i)
_tmp_lock = threading.Lock()
_tmp_counter = [0]


def tmpdir(tag):
    with _tmp_lock:
        _tmp_counter[0] += 1
        n = _tmp_counter[0]
    d = os.path.join(BUILD, "tmp", "psim_%d" % os.getpid(), "%s_%d" % (tag, n))
    os.makedirs(d, exist_ok=True)
    return d


def build_simsouffle():
    t0 = time.time()
    r = subprocess.run([os.path.join(VERIF, "psim", "build.sh")], stdout=subprocess.PIPE, stderr=subprocess.STDOUT, text=True)
    if r.returncode != 0:
        log(r.stdout[-6000:])
        return None, time.time() - t0
    global SIM_EXE
    SIM_EXE = r.stdout.strip().splitlines()[-1]
    return SIM_EXE, time.time() - t0


SIM_EXE = None
SECOND_BUDGET = 20000000000  # steps; the first budget is simrt's default (2e9)


def held_sizes(w, rels):
    """Number of tuples the relations hold after a sequential run of the program, as reported by .printsize directives appended to
    the program text (independent of how tuples are rendered to files: a symbol may contain a newline).  None if unavailable."""
    if SIM_EXE is None:
        return None
    if w.origin == "corpus":
        src, facts, cwd = os.path.join(w.meta["dir"], w.meta["corpus"] + ".dl"), w.meta["facts_dir"], w.meta["dir"]
    else:
        if not w.dir or not os.path.isdir(w.dir):
            w.materialise()
        src, facts, cwd = os.path.join(w.dir, "p.dl"), os.path.join(w.dir, "facts"), w.dir
    out = tmpdir("ps")
    prog = os.path.join(out, "ps.dl")
    with open(prog, "w") as f:
        f.write(open(src).read() + "\n" + "".join(".printsize %s\n" % r for r in rels))
    env = dict(os.environ)
    env.update({"VERIF_SIM_SEED": "1", "VERIF_SIM_STRATEGY": "seq", "VERIF_SIM_OMP": "1", "VERIF_SIM_FAULTS": "0"})
    try:
        p = subprocess.run([SIM_EXE, "--no-preprocessor", "-j1", "-F", facts, "-D", out, prog], stdout=subprocess.PIPE, stderr=subprocess.PIPE,
                           env=env, timeout=600, cwd=cwd)
    except subprocess.TimeoutExpired:
        return None
    finally:
        pass
    sizes = {}
    if p.returncode == 0:
        for line in p.stdout.decode(errors="replace").splitlines():
            parts = line.split("\t")
            if len(parts) == 2 and parts[0] in rels and parts[1].isdigit():
                sizes[parts[0]] = int(parts[1])
    shutil.rmtree(out, ignore_errors=True)
    return sizes if p.returncode == 0 else None


class Workload:
    """A program + facts on disk."""

    def __init__(self, wid, text, facts, meta, origin="generated"):
        self.wid, self.text, self.facts, self.meta, self.origin = wid, text, facts, meta, origin
        self.dir = None

    def materialise(self, d=None):
        d = d or tmpdir("w")
        os.makedirs(os.path.join(d, "facts"), exist_ok=True)
        with open(os.path.join(d, "p.dl"), "w") as f:
            f.write(self.text)
        for n, rows in self.facts.items():
            with open(os.path.join(d, "facts", n + ".facts"), "w") as f:
                for t in rows:
                    f.write("\t".join(t) + "\n")
        self.dir = d
        return d

    def to_json(self):
        return {"wid": self.wid, "program": self.text, "facts": {k: ["\t".join(t) for t in v] for k, v in self.facts.items()}, "meta": self.meta,
                "origin": self.origin}

    @staticmethod
    def from_json(j):
        return Workload(j["wid"], j["program"], {k: [tuple(l.split("\t")) for l in v] for k, v in j["facts"].items()}, j.get("meta", {}),
                        j.get("origin", "replay"))


def corpus_workloads(exclude_substrings, limit=None, names=None):
    """Programs of the repository's own evaluation corpus (with their facts and expected outputs)."""
    root = os.path.join(REPO, "tests", "evaluation")
    out = []
    for name in sorted(os.listdir(root)):
        d = os.path.join(root, name)
        dl = os.path.join(d, name + ".dl")
        if not os.path.isfile(dl):
            continue
        if names is not None and name not in names:
            continue
        try:
            text = open(dl, encoding="utf-8", errors="replace").read()
        except Exception:
            continue
        if any(s in text for s in exclude_substrings):
            continue
        if "#include" in text or "#define" in text or "#if" in text:
            continue  # needs the C preprocessor (mcpp is not installed)
        facts = {}
        fdir = os.path.join(d, "facts")
        w = Workload("corpus:" + name, text, {}, {"corpus": name, "dir": d, "facts_dir": fdir if os.path.isdir(fdir) else d}, "corpus")
        out.append(w)
        if limit and len(out) >= limit:
            break
    return out


def read_outputs(d):
    res = {}
    for fn in sorted(os.listdir(d)):
        if fn.endswith(".csv"):
            with open(os.path.join(d, fn), "rb") as f:
                res[fn[:-4]] = sorted(f.read().split(b"\n")[:-1])
    return res


class Case:
    def __init__(self, workload, mode, nthreads, seed, faults=0, extra_args=(), strategy=None, env=None, binary=None, tick_ns=None):
        self.w, self.mode, self.n, self.seed, self.faults = workload, mode, nthreads, seed, faults
        self.extra_args, self.strategy, self.env, self.binary, self.tick_ns = list(extra_args), strategy, dict(env or {}), binary, tick_ns

    def key(self):
        return "%s|%s|j%d|s%d|f%d|%s" % (self.w.wid, self.mode, self.n, self.seed, self.faults, " ".join(self.extra_args))


def run_case(exe, case, keep=False, record=None, replay=None, timeout=600, workdir=None):
    """Execute one simulated run. Returns dict(rc, stats, outputs, stderr, outdir)."""
    w = case.w
    if w.origin == "corpus":
        progdir = w.meta["dir"]
        prog = os.path.join(progdir, w.meta["corpus"] + ".dl")
        facts = w.meta["facts_dir"]
        if workdir and getattr(w, "dir", None):
            prog = os.path.join(w.dir, "p.dl")
    else:
        if not w.dir or not os.path.isdir(w.dir):
            w.materialise()
        prog = os.path.join(w.dir, "p.dl")
        facts = os.path.join(w.dir, "facts")
    out = tmpdir("o")
    stats_path = os.path.join(out, "_sim.json")
    env = dict(os.environ)
    env.update({"VERIF_SIM_SEED": str(case.seed), "VERIF_SIM_OUT": stats_path, "VERIF_SIM_FAULTS": str(case.faults), "VERIF_SIM_OMP": str(case.n),
                "VERIF_SIM_RECORD": "1" if record else "0"})
    if case.strategy is not None:
        env["VERIF_SIM_STRATEGY"] = str(case.strategy)
    if case.tick_ns:
        env["VERIF_SIM_TICK_NS"] = str(case.tick_ns)
    if record:
        env["VERIF_SIM_DECISIONS"] = record
    if replay:
        env["VERIF_SIM_REPLAY"] = replay
    env.update(case.env)
    if case.binary:
        cmd = [case.binary, "-j%d" % case.n, "-F", facts, "-D", out] + case.extra_args
    else:
        cmd = [exe, "--no-preprocessor", "-j%d" % case.n, "-F", facts, "-D", out] + case.extra_args + [prog]
    cmd = [a.replace("{OUT}", out) for a in cmd]
    cpu = _cpu_q.get()
    t0 = time.time()
    try:
        p = subprocess.run(["taskset", "-c", str(cpu)] + cmd, stdout=subprocess.PIPE, stderr=subprocess.PIPE, env=env, timeout=timeout,
                           cwd=os.path.dirname(prog))
        rc, err, so = p.returncode, p.stderr.decode(errors="replace"), p.stdout.decode(errors="replace")
    except subprocess.TimeoutExpired:
        rc, err, so = -999, "timeout after %ds" % timeout, ""
    finally:
        _cpu_q.put(cpu)
    stats = {}
    try:
        stats = json.load(open(stats_path))
    except Exception:
        pass
    res = {"rc": rc, "stats": stats, "stderr": err[-2000:], "stdout": so[-2000:], "outdir": out, "wall": time.time() - t0, "cmd": cmd}
    try:
        res["outputs"] = read_outputs(out)
    except Exception:
        res["outputs"] = {}
    if not keep:
        res["profile"] = None
    return res


def cleanup(res):
    if res and res.get("outdir") and os.path.isdir(res["outdir"]):
        shutil.rmtree(res["outdir"], ignore_errors=True)


def basic_failures(ref, res):
    """Failures common to every whole-program oracle: crash, verdict, hang."""
    f = []
    st = res["stats"]
    # A run that exceeds the step budget has already been repeated with a ten times larger budget by the caller (see
    # Explorer.run_workload): only a run that exceeds that one as well is a violation.  A wall-clock timeout counts as a
    # violation only when the sequential reference run of the same program was short (otherwise it is inconclusive).
    ref_wall = (ref or {}).get("wall", 0) if ref else 0
    if res["rc"] == -999:
        if (ref and ref_wall * 300 > 600) or res.get("second_chance"):
            f.append(("inconclusive:hang", "no result within the wall-clock limit; the reference run took %.1f s" % ref_wall))
        else:
            f.append(("hang", "no result within the wall-clock limit"))
    elif st.get("verdict"):
        f.append(({1: "deadlock", 2: "livelock", 3: "budget"}.get(st["verdict"], "verdict"), st.get("verdict_msg", "")))
    elif res["rc"] != 0:
        sig = res["stderr"].strip().splitlines()[-1:] or [""]
        f.append(("crash:rc=%d" % res["rc"], sig[0][:200]))
    return f


def diff_outputs(ref_out, got_out, only=None, skip=()):
    f = []
    for rel, lines in sorted(ref_out.items()):
        if rel in skip or (only is not None and rel not in only):
            continue
        g = got_out.get(rel)
        if g is None:
            f.append(("output-missing:" + rel, "output relation %s was not written" % rel))
            continue
        # a tuple listed twice; a reference whose lines repeat holds symbols with embedded newlines (lines are then not tuples)
        if len(set(g)) != len(g) and len(set(lines)) == len(lines):
            f.append(("output-duplicate:" + rel, "relation %s lists a tuple twice" % rel))
        if g != lines:
            sg, sl = set(g), set(lines)
            miss, extra = sorted(sl - sg)[:3], sorted(sg - sl)[:3]
            f.append(("output-mismatch:" + rel, "relation %s: %d tuples vs %d in the -j1 run; missing %s extra %s" % (
                rel, len(g), len(lines), [m.decode(errors="replace") for m in miss], [m.decode(errors="replace") for m in extra])))
    for rel in got_out:
        if rel not in ref_out and rel not in skip and only is None:
            f.append(("output-unexpected:" + rel, "relation %s written only by the parallel run" % rel))
    return f


class Explorer:
    """Time-bounded exploration: workloads -> reference run -> K simulated cases each -> oracle."""

    def __init__(self, prop, exe, tier, oracle, assumptions):
        self.prop, self.exe, self.tier, self.oracle, self.assumptions = prop, exe, tier, oracle, assumptions
        self.results = []  # per simulated case: dict
        self.failures = []
        self.workloads_done = 0
        self.invalid_workloads = []
        self.second_chances = 0
        self.inconclusive = []  # runs that hit the step / wall-clock limit on a program whose reference run is itself long
        self.lock = threading.Lock()
        self.samples = []
        self.par_kinds = {}

    def run_workload(self, w, mk_cases, ref_case_fn, deadline):
        """reference run, then the cases. Returns number of cases run."""
        refc = ref_case_fn(w)
        ref = run_case(self.exe, refc, timeout=300)
        if ref["rc"] != 0 or not ref["outputs"] and not w.meta.get("allow_empty"):
            with self.lock:
                self.invalid_workloads.append((w.wid, ref["rc"], ref["stderr"][-300:]))
            cleanup(ref)
            return 0
        cases = mk_cases(w)
        n = 0
        for c in cases:
            if time.time() > deadline:
                break
            res = run_case(self.exe, c, keep=True)
            if res["stats"].get("verdict") == 3:
                # step budget exceeded: long but legitimate runs exist (plain-access sampling at period 1 together with a coarse
                # simulated clock keeps the profiler's timer thread busy); repeat once with ten times the budget
                cleanup(res)
                c2 = Case(c.w, c.mode, c.n, c.seed, c.faults, c.extra_args, c.strategy, dict(c.env, VERIF_SIM_BUDGET=str(SECOND_BUDGET)), c.binary, c.tick_ns)
                res = run_case(self.exe, c2, keep=True, timeout=1500)
                res["second_chance"] = True
                with self.lock:
                    self.second_chances += 1
            fails = basic_failures(ref, res)
            inconclusive = bool(fails) and all(x[0].startswith("inconclusive") for x in fails)
            if inconclusive:
                with self.lock:
                    self.inconclusive.append((c.key(), fails[0][0]))
                cleanup(res)
                n += 1
                continue
            if not fails:
                try:
                    fails = self.oracle(w, ref, res, c)
                except Exception as e:  # an oracle crash is a machinery fault, never a verdict
                    fails = [("oracle-exception", repr(e))]
            st = res["stats"]
            rec = {"wid": w.wid, "mode": c.mode, "n": c.n, "seed": c.seed, "faults": c.faults, "ok": not fails, "steps": st.get("steps", 0),
                   "switches": st.get("switches", 0), "preempt": st.get("preemptions", 0), "hash": st.get("hash"), "sim_ns": st.get("sim_ns", 0),
                   "regions": st.get("regions", 0), "max_tasks": st.get("max_tasks", 0), "strategy": st.get("strategy"), "plain": st.get("plain_period"),
                   "fault_counts": st.get("faults", {}), "kinds": st.get("kinds", []), "probes": st.get("probes", {}), "wall": res["wall"]}
            with self.lock:
                self.results.append(rec)
                if fails:
                    self.failures.append({"case": c, "fails": fails, "rec": rec})
                if len(self.samples) < 3 and st.get("regions", 0) > 0:
                    self.samples.append({"workload": w.wid, "fragments": w.meta.get("fragments"), "threads": c.n, "seed": c.seed, "strategy": st.get("strategy"),
                                         "steps": st.get("steps"), "switches": st.get("switches"), "parallel_regions": st.get("regions"),
                                         "program_head": w.text[:400]})
            cleanup(res)
            n += 1
        cleanup(ref)
        with self.lock:
            self.workloads_done += 1
        return n

    def explore(self, workload_iter, mk_cases, ref_case_fn, budget_s, parallel=NCPU, prepare=None, per_workload_s=None):
        """per_workload_s: the cases of a workload get this much time from the moment its preparation (e.g. compilation) finished,
        and new workloads are started until budget_s has passed."""
        deadline = time.time() + budget_s
        it = iter(workload_iter)
        itlock = threading.Lock()

        def worker():
            while time.time() < deadline:
                with itlock:
                    try:
                        w = next(it)
                    except StopIteration:
                        return
                try:
                    if w.origin != "corpus" and (not w.dir or not os.path.isdir(w.dir)):
                        w.materialise()
                    if prepare is not None and not prepare(w):
                        with self.lock:
                            self.invalid_workloads.append((w.wid, "prepare", "workload could not be prepared (synthesis/compile failed)"))
                        continue
                    self.run_workload(w, mk_cases, ref_case_fn, deadline if per_workload_s is None else time.time() + per_workload_s)
                except Exception as e:
                    with self.lock:
                        self.invalid_workloads.append((w.wid, "exception", repr(e)))
                finally:
                    if w.origin != "corpus" and w.dir:
                        shutil.rmtree(w.dir, ignore_errors=True)
                        w.dir = None

        with cf.ThreadPoolExecutor(parallel) as ex:
            futs = [ex.submit(worker) for _ in range(parallel)]
            for f in futs:
                f.result()

    def coverage(self, wall, build_s, extra=None):
        rs = self.results
        nontrivial = [r for r in rs if r["max_tasks"] >= 2 and r["preempt"] >= 1 and r["regions"] >= 1]
        hashes = set((r["wid"], r["hash"]) for r in nontrivial)
        strat, faults, kinds, probes, threads = {}, {}, {}, {}, {}
        for r in rs:
            sk = str(r["strategy"]) if r["strategy"] is not None else "no-stats(crashed)"
            strat[sk] = strat.get(sk, 0) + 1
            threads[str(r["n"])] = threads.get(str(r["n"]), 0) + 1
            for k, v in (r["fault_counts"] or {}).items():
                if v:
                    faults[k] = faults.get(k, 0) + v
            for i, v in enumerate(r["kinds"] or []):
                if v and i < len(KIND_NAMES):
                    kinds[KIND_NAMES[i]] = kinds.get(KIND_NAMES[i], 0) + v
            for k, v in (r["probes"] or {}).items():
                e = probes.setdefault(k, [0, 0])
                e[0] += v
                e[1] += 1
        cov = {
            "evaluations": len(rs),
            "distinct_nontrivial": len(hashes),
            "rule": "one evaluation = one simulated whole-program run (workload, mode, thread count, seed, fault configuration) compared with the -j1 run "
                    "of the same binary; non-trivial = at least one parallel region executed with >=2 tasks and >=1 preemption; distinct = distinct "
                    "(workload, event hash) pairs",
            "samples": self.samples or [{"note": "no run with a parallel region"}],
            "workloads": self.workloads_done,
            "workloads_rejected_by_reference_run": len(self.invalid_workloads),
            "runs_inconclusive_too_long": len(self.inconclusive),
            "runs_repeated_with_larger_step_budget": self.second_chances,
            "inconclusive_examples": [list(x) for x in self.inconclusive[:3]],
            "rejected_examples": [list(map(str, x)) for x in self.invalid_workloads[:3]],
            "runs_per_hour": int(len(rs) / max(wall, 1e-6) * 3600),
            "schedule_steps_total": sum(r["steps"] for r in rs),
            "context_switches_total": sum(r["switches"] for r in rs),
            "simulated_ns_total": sum(r["sim_ns"] for r in rs),
            "parallel_regions_total": sum(r["regions"] for r in rs),
            "per_strategy_runs": strat,
            "per_thread_count_runs": threads,
            "fault_kinds_fired": faults,
            "schedule_point_kinds": kinds,
            "reach_counters": {k: {"hits": v[0], "runs": v[1]} for k, v in sorted(probes.items())},
            "parallel_operator_kinds_in_workloads": self.par_kinds,
            "failing_runs": len(self.failures),
            "build_s": round(build_s, 1),
            "real_code": "parser, AST and RAM pipelines, interpreter (or synthesised C++), all data structures, CSV I/O on the real file system",
            "simulated": "OpenMP runtime (team creation, dynamic loop chunks, barriers, single, critical), pthread mutex/rwlock/condvar blocking, "
                         "thread creation, clock and getrusage, the scheduling of every atomic operation (its effect is the real __atomic builtin)",
        }
        if extra:
            cov.update(extra)
        return cov


# ---------------------------------------------------------------------------------------- gate + minimise + replay
def classify(w, exe, case, oracle, ref_case_fn, record=None, replay=None):
    ref = run_case(exe, ref_case_fn(w), timeout=300)
    res = run_case(exe, case, keep=True, record=record, replay=replay)
    if res["stats"].get("verdict") == 3:
        cleanup(res)
        c2 = Case(case.w, case.mode, case.n, case.seed, case.faults, case.extra_args, case.strategy, dict(case.env, VERIF_SIM_BUDGET=str(SECOND_BUDGET)),
                  case.binary, case.tick_ns)
        res = run_case(exe, c2, keep=True, record=record, replay=replay, timeout=1500)
        res["second_chance"] = True
    fails = basic_failures(ref, res)
    if not fails and ref["rc"] == 0:
        try:
            fails = oracle(w, ref, res, case)
        except Exception as e:
            fails = [("oracle-exception", repr(e))]
    h = res["stats"].get("hash")
    cleanup(ref)
    cleanup(res)
    return fails, h, ref["rc"]


def minimise(prop, exe, failure, oracle, ref_case_fn, tier):
    case = failure["case"]
    cls = failure["fails"][0][0]
    w = case.w
    # gate: same case twice -> same class, same hash
    f1, h1, _ = classify(w, exe, case, oracle, ref_case_fn)
    f2, h2, _ = classify(w, exe, case, oracle, ref_case_fn)
    c1 = [x[0] for x in f1]
    c2 = [x[0] for x in f2]
    if cls == "hang" and not c1 and not c2:
        return None, None  # merely slow under load: passes when re-run
    if cls not in c1 or cls not in c2 or h1 != h2:
        return None, "case %s: %s not reproducible (got %s / %s, hashes %s / %s)" % (case.key(), cls, c1, c2, h1, h2)
    deadline = time.time() + (120 if tier == "quick" else 420)
    cur = w
    if w.origin != "corpus":
        # facts ddmin, then rules ddmin (the same seed is re-run on the smaller workload)
        def mk(facts, rules_keep=None, base=cur):
            text = base.text
            if rules_keep is not None:
                lines = text.split("\n")
                text = "\n".join(l for i, l in enumerate(lines) if i in rules_keep or not _is_rule(l))
            return Workload(base.wid + "'", text, facts, base.meta, "generated")

        def fails_with(wl):
            c = Case(wl, case.mode, case.n, case.seed, case.faults, case.extra_args, case.strategy, case.env, case.binary, case.tick_ns)
            wl.materialise()
            try:
                ff, _, refrc = classify(wl, exe, c, oracle, ref_case_fn)
            finally:
                shutil.rmtree(wl.dir, ignore_errors=True)
            return refrc == 0 and cls in [x[0] for x in ff]

        items = [(n, i) for n, rows in cur.facts.items() for i in range(len(rows))]

        def test_facts(keep):
            ks = set(keep)
            facts = {n: [t for i, t in enumerate(rows) if (n, i) in ks] for n, rows in cur.facts.items()}
            return fails_with(mk(facts))

        if len(items) >= 2:
            kept, _ = ddmin(items, test_facts, max_runs=60, deadline=deadline)
            ks = set(kept)
            cur = mk({n: [t for i, t in enumerate(rows) if (n, i) in ks] for n, rows in cur.facts.items()})
        lines = cur.text.split("\n")
        rule_idx = [i for i, l in enumerate(lines) if _is_rule(l)]

        def test_rules(keep):
            return fails_with(mk(cur.facts, set(keep), base=cur))

        # (a synthesised binary embeds the rules: they are only minimised for interpreter runs, where the text is what is executed)
        if len(rule_idx) >= 2 and not cur.meta.get("no_rule_min") and not case.binary:
            keptr, _ = ddmin(rule_idx, test_rules, max_runs=40, deadline=deadline)
            cur = mk(cur.facts, set(keptr), base=cur)
        cur.wid = w.wid + ":min"
    cur.materialise()
    mcase = Case(cur, case.mode, case.n, case.seed, case.faults, case.extra_args, case.strategy, case.env, case.binary, case.tick_ns)
    # schedule: record, then ddmin over the recorded switches
    dec_path = os.path.join(tmpdir("dec"), "decisions.txt")
    ff, h, _ = classify(cur, exe, mcase, oracle, ref_case_fn, record=dec_path)
    if cls not in [x[0] for x in ff]:
        # minimised workload lost the failure in the recording run: fall back to the original workload
        cur = w
        if not cur.dir and cur.origin != "corpus":
            cur.materialise()
        mcase = case
        ff, h, _ = classify(cur, exe, mcase, oracle, ref_case_fn, record=dec_path)
    decisions = []
    if os.path.exists(dec_path):
        for l in open(dec_path):
            p = l.split()
            if len(p) == 2:
                decisions.append((int(p[0]), int(p[1])))
    use_dec = False
    min_dec = decisions
    if decisions:
        cand = os.path.join(os.path.dirname(dec_path), "cand.txt")

        def wr(path, dl):
            with open(path, "w") as f:
                for s, k in dl:
                    f.write("%d %d\n" % (s, k))

        def test_dec(dl):
            wr(cand, dl)
            ff2, _, _ = classify(cur, exe, mcase, oracle, ref_case_fn, replay=cand)
            return cls in [x[0] for x in ff2]

        if test_dec(decisions):
            use_dec = True
            if len(decisions) <= 200000:
                min_dec, _ = ddmin(decisions, test_dec, max_runs=60 if tier == "quick" else 200, deadline=deadline + 120)
            wr(cand, min_dec)
            rec2 = os.path.join(os.path.dirname(dec_path), "final.txt")
            ff3, h3, _ = classify(cur, exe, mcase, oracle, ref_case_fn, record=rec2, replay=cand)
            if cls in [x[0] for x in ff3] and os.path.exists(rec2):
                min_dec = [tuple(map(int, l.split())) for l in open(rec2) if len(l.split()) == 2]
                h = h3
                ff = ff3
            else:
                min_dec = decisions
    msg = [x[1] for x in ff if x[0] == cls]
    rp = {"property": prop, "kind": "psim", "cls": cls, "msg": msg[0] if msg else failure["fails"][0][1], "expected_hash": h,
          "workload": cur.to_json(), "mode": mcase.mode, "threads": mcase.n, "seed": mcase.seed, "faults": mcase.faults, "extra_args": mcase.extra_args,
          "strategy": mcase.strategy, "env": mcase.env, "tick_ns": mcase.tick_ns, "decisions": min_dec if use_dec else None,
          "switches_before": len(decisions), "switches_after": len(min_dec) if use_dec else None,
          "facts_before": sum(len(v) for v in w.facts.values()), "facts_after": sum(len(v) for v in cur.facts.values()),
          "how": "./check %s --replay <this file>" % prop}
    from .common import findings_dir
    outdir = findings_dir(prop)
    name = hashlib.sha1(case.key().encode()).hexdigest()[:10]
    path = os.path.join(outdir, "psim_%s.replay.json" % name)
    with open(path, "w") as f:
        json.dump(rp, f, indent=1)
    return path, None


def _is_rule(line):
    s = line.strip()
    return ":-" in s and not s.startswith(".") and not s.startswith("//")


def replay_psim(prop, path, exe, oracle, ref_case_fn, binary_builder=None):
    rp = json.load(open(path))
    w = Workload.from_json(rp["workload"])
    if w.origin == "corpus" and "corpus" in w.meta:
        w.meta["dir"] = os.path.join(REPO, "tests", "evaluation", w.meta["corpus"])
        fd = os.path.join(w.meta["dir"], "facts")
        w.meta["facts_dir"] = fd if os.path.isdir(fd) else w.meta["dir"]
    else:
        w.origin = "generated"
        w.materialise()
    binary = None
    if rp.get("mode") == "compiled" and binary_builder:
        binary = binary_builder(w)
    case = Case(w, rp["mode"], rp["threads"], rp["seed"], rp.get("faults", 0), rp.get("extra_args", []), rp.get("strategy"), rp.get("env"), binary,
                rp.get("tick_ns"))
    replay = None
    if rp.get("decisions") is not None:
        replay = os.path.join(tmpdir("rp"), "d.txt")
        with open(replay, "w") as f:
            for s, k in rp["decisions"]:
                f.write("%d %d\n" % (s, k))
    fails, h, _ = classify(w, exe, case, oracle, ref_case_fn, replay=replay)
    ok = rp["cls"] in [x[0] for x in fails]
    return ok, [x[0] for x in fails]

// C31 — symbol and record interning is a bijection under concurrency
// (ConcurrentFlyweight + ConcurrentInsertOnlyHashMap with an injected hash, the real SymbolTableImpl and
//  SpecializedRecordTable with omp_get_thread_num() served by the simulated OpenMP runtime).
#include "souffle/utility/StreamUtil.h"
#include "common.h"

#include "souffle/RamTypes.h"
#include "souffle/datastructure/ConcurrentFlyweight.h"
#include "souffle/datastructure/RecordTableImpl.h"
#include "souffle/datastructure/SymbolTableImpl.h"

#include <omp.h>

const char* H_NAME = "flyweight";
const char* H_PROP = "C31";
unsigned harness_fault_mask() {
    // spurious std::mutex::try_lock failure drives the release-and-reacquire slow path of beforeLockAllBut
    return 1u << sim::F_TRYLOCK;
}

using namespace dsim;
using souffle::RamDomain;

enum OpCode { OP_INTERN = 1, OP_DECODE, OP_CONTAINS };
enum { VAR_FLY = 0, VAR_SYM, VAR_REC, VAR_COUNT };

static size_t g_hash_mod = 0;  // 0 = real hash; otherwise forced bucket collisions
struct SmallHash {
    size_t operator()(const std::string& s) const {
        size_t h = std::hash<std::string>()(s);
        return g_hash_mod ? h % g_hash_mod : h;
    }
};

static std::string value_of(long v) {
    // values with shared prefixes and different lengths
    if (v % 7 == 0) return "s" + std::to_string(v) + std::string((size_t)(v % 5), 'x');
    return "sym_" + std::to_string(v);
}
static std::vector<RamDomain> record_of(long v) {
    // arity 0..6 derived from the value; arities 0,1,2 hit the specialised maps, >=3 the generic ones (created on demand)
    size_t arity = (size_t)(v % 7);
    std::vector<RamDomain> r(arity);
    for (size_t i = 0; i < arity; i++) r[i] = (RamDomain)((v / 7) * (long)(i + 1) + (long)i);
    return r;
}

// ---- shared oracle state (only touched inside NoPreempt sections)
struct Oracle {
    std::map<std::string, long> value2idx;  // key: canonical value string
    std::map<long, std::string> idx2value;
    std::map<std::string, int> inserted_true;
    std::vector<std::pair<std::string, long>> mailbox;  // pairs whose interning has returned (visible to all tasks)
    std::set<std::string> ever;                          // every value any task will intern in this run
    std::map<std::string, std::vector<RamDomain>> recs;
    int arity_base = 0;
};
static Oracle* O = nullptr;

static std::string rec_key(const std::vector<RamDomain>& r) {
    std::string s = "[" + std::to_string(r.size()) + "]";
    for (auto v : r) s += std::to_string(v) + ",";
    return s;
}

static void observe(int task, const std::string& key, long idx, int inserted /* -1 unknown */) {
    NoPreempt np;
    Oracle& o = *O;
    auto it = o.value2idx.find(key);
    if (it != o.value2idx.end()) {
        CHECK(it->second == idx, "two-indices", "task %d: value %s interned as index %ld, earlier as %ld", task, key.c_str(), idx, it->second);
    } else {
        auto jt = o.idx2value.find(idx);
        CHECK(jt == o.idx2value.end(), "index-shared", "task %d: index %ld returned for %s was already given to %s", task, idx, key.c_str(),
                jt == o.idx2value.end() ? "" : jt->second.c_str());
        o.value2idx[key] = idx;
        o.idx2value[idx] = key;
    }
    if (inserted == 1) o.inserted_true[key]++;
    o.mailbox.emplace_back(key, idx);
}

template <typename Sys>
static void run_script(Sys& sys, int task, const std::vector<Op>& ops) {
    Rng pick((uint64_t)task * 7919 + 13);
    for (const Op& op : ops) {
        switch (op.code) {
            case OP_INTERN: sys.intern(task, op.a); break;
            case OP_DECODE: {
                std::pair<std::string, long> known;
                bool have = false;
                {
                    NoPreempt np;
                    if (!O->mailbox.empty()) {
                        known = O->mailbox[(size_t)op.a % O->mailbox.size()];
                        have = true;
                    }
                }
                if (have) sys.decode(task, known.first, known.second);
                break;
            }
            case OP_CONTAINS: sys.contains(task, op.a); break;
        }
        sim::note(((uint64_t)task << 48) ^ ((uint64_t)op.code << 40) ^ (uint64_t)op.a);
        OPDONE();
    }
}

// ---- system under test: three variants behind one small interface
struct FlySys {
    using Fly = souffle::ConcurrentFlyweight<souffle::ConcurrentLanes, std::string, SmallHash>;
    Fly fly;
    size_t lanes;
    FlySys(size_t lanes, size_t cap, bool reserve) : fly(lanes, cap, reserve), lanes(lanes) {}
    void intern(int task, long v) {
        std::string s = value_of(v);
        auto r = fly.findOrInsert((size_t)task % lanes, s);
        observe(task, s, (long)r.first, r.second ? 1 : 0);
    }
    void decode(int task, const std::string& key, long idx) {
        const std::string& got = fly.fetch((size_t)task % lanes, (size_t)idx);
        CHECK(got == key, "decode-wrong", "task %d: fetch(%ld) = %s, expected %s", task, idx, got.c_str(), key.c_str());
    }
    void contains(int task, long v) {
        std::string s = value_of(v);
        bool known;
        {
            NoPreempt np;
            known = O->value2idx.count(s) > 0;
        }
        bool c = fly.weakContains((size_t)task % lanes, s);
        if (known) CHECK(c, "contains-false", "task %d: weakContains(%s) is false although its interning had returned before", task, s.c_str());
        NoPreempt np;
        if (!O->ever.count(s)) CHECK(!c, "contains-phantom", "task %d: weakContains(%s) is true but nobody ever interns it", task, s.c_str());
    }
    void quiescent() {
        std::map<long, std::string> seen;
        size_t n = 0;
        for (auto it = fly.begin(0); it != fly.end(); ++it) {
            CHECK(seen.emplace((long)it->second, it->first).second, "iteration-dup", "iteration lists index %ld twice", (long)it->second);
            if (++n > O->idx2value.size() + 4) break;
        }
        CHECK(seen == O->idx2value, "iteration-content", "iteration lists %zu (index,value) pairs, %zu were interned", seen.size(), O->idx2value.size());
    }
};

struct SymSys {
    souffle::SymbolTableImpl st;
    explicit SymSys(size_t lanes) : st(lanes) {}
    void intern(int task, long v) {
        std::string s = value_of(v);
        if (v & 1) {
            auto r = st.findOrInsert(s);
            observe(task, s, (long)r.first, r.second ? 1 : 0);
        } else {
            RamDomain r = st.encode(s);
            observe(task, s, (long)r, -1);
        }
    }
    void decode(int task, const std::string& key, long idx) {
        const std::string& got = st.decode((RamDomain)idx);
        CHECK(got == key, "decode-wrong", "task %d: decode(%ld) = %s, expected %s", task, idx, got.c_str(), key.c_str());
    }
    void contains(int task, long v) {
        std::string s = value_of(v);
        bool known;
        {
            NoPreempt np;
            known = O->value2idx.count(s) > 0;
        }
        bool c = st.weakContains(s);
        if (known) CHECK(c, "contains-false", "task %d: weakContains(%s) is false although its encoding had returned before", task, s.c_str());
        NoPreempt np;
        if (!O->ever.count(s)) CHECK(!c, "contains-phantom", "task %d: weakContains(%s) is true but nobody ever encodes it", task, s.c_str());
    }
    void quiescent() {
        std::map<long, std::string> seen;
        size_t n = 0;
        for (auto it = st.begin(); it != st.end(); ++it) {
            CHECK(seen.emplace((long)(*it).second, (*it).first).second, "iteration-dup", "symbol table iteration lists index %ld twice", (long)(*it).second);
            if (++n > O->idx2value.size() + 4) break;
        }
        CHECK(seen == O->idx2value, "iteration-content", "symbol table iteration lists %zu symbols, %zu were encoded", seen.size(), O->idx2value.size());
    }
};

struct RecSys {
    souffle::SpecializedRecordTable<0, 1, 2> rt;
    explicit RecSys(size_t lanes) : rt(lanes) {}
    // record references of different arities live in different maps: the bijection is per arity
    static std::string key_of(long v) { return rec_key(record_of(v)); }
    static long compound(size_t arity, RamDomain ref) { return (long)arity * 100000000L + (long)ref; }
    void intern(int task, long v) {
        auto r = record_of(v);
        RamDomain ref = rt.pack(r.data(), r.size());
        CHECK(ref != 0, "nil-returned", "task %d: pack of a real record of arity %zu returned the nil reference", task, r.size());
        if (r.empty()) CHECK(ref == 1, "empty-record", "task %d: the arity-0 record packed to %d (expected the fixed reference 1)", task, (int)ref);
        std::string key = rec_key(r);
        {
            NoPreempt np;
            O->recs[key] = r;
        }
        observe(task, key, compound(r.size(), ref), -1);
    }
    void decode(int task, const std::string& key, long cidx) {
        std::vector<RamDomain> want;
        {
            NoPreempt np;
            want = O->recs[key];
        }
        if (want.empty()) return;  // unpack of the empty record is not meaningful
        const RamDomain* got = rt.unpack((RamDomain)(cidx % 100000000L), want.size());
        bool same = got != nullptr;
        for (size_t i = 0; same && i < want.size(); i++) same = got[i] == want[i];
        CHECK(same, "decode-wrong", "task %d: unpack(%ld, arity %zu) does not return the packed record %s", task, cidx % 100000000L, want.size(), key.c_str());
    }
    void contains(int, long) {}
    void quiescent() {
        std::map<long, std::string> seen;
        size_t n = 0;
        rt.enumerate([&](const RamDomain* t, std::size_t arity, RamDomain ref) {
            std::vector<RamDomain> r(t, t + arity);
            if (++n > O->idx2value.size() + 8) return;
            CHECK(seen.emplace(compound(arity, ref), rec_key(r)).second, "iteration-dup", "enumerate lists reference %d of arity %zu twice", (int)ref, arity);
        });
        // the arity-0 map enumerates nothing by design
        std::map<long, std::string> want;
        for (auto& kv : O->idx2value)
            if (kv.first >= 100000000L) want.insert(kv);
        CHECK(seen == want, "iteration-content", "enumerate lists %zu records, %zu were packed", seen.size(), want.size());
    }
};

template <typename Sys>
static void drive(Sys& sys, const Workload& wl, bool use_omp_team) {
    Oracle oracle;
    O = &oracle;
    for (const Phase& ph : wl.phases)
        for (auto& t : ph.tasks)
            for (auto& o : t)
                if (o.code == OP_INTERN) {
                    oracle.ever.insert(value_of(o.a));
                    oracle.ever.insert(rec_key(record_of(o.a)));
                }
    for (const Phase& ph : wl.phases) {
        int T = (int)ph.tasks.size();
        if (use_omp_team) {
            // the OpenMP-lane variants take their lane from omp_get_thread_num(): run the clients as a simulated OpenMP team
#pragma omp parallel num_threads(T)
            {
                int t = omp_get_thread_num();
                if (t < T) run_script(sys, t, ph.tasks[t]);
            }
        } else {
            sim::parallel(T, [&](int t) { run_script(sys, t, ph.tasks[t]); });
        }
        if (g_res && !g_res->ok) break;
        // inserted-flag exactly once per value (where the API reports it)
        for (auto& kv : oracle.inserted_true)
            CHECK(kv.second == 1, "inserted-flag", "value %s was reported as freshly inserted %d times", kv.first.c_str(), kv.second);
        sys.quiescent();
        // every known pair decodes at quiescence
        for (auto& kv : oracle.value2idx) sys.decode(0, kv.first, kv.second);
        if (g_res && !g_res->ok) break;
    }
    COUNT("distinct_values", oracle.value2idx.size());
    O = nullptr;
}

Workload gen(uint64_t seed, bool thorough) {
    Rng r(seed);
    Workload w;
    int variant = (int)r.below(VAR_COUNT);
    w.params["variant"] = variant;
    int T = (int)r.range(2, 8);
    if (r.chance(1, 3)) T = (int)r.range(2, 3);
    int L = (int)r.range(1, T);
    if (r.chance(1, 2)) L = T;
    w.params["lanes"] = L;
    w.params["capacity"] = (long)r.pick(std::vector<long>{1, 2, 3, 8});
    w.params["reserve_first"] = (long)r.below(2);
    w.params["hash_mod"] = (long)r.pick(std::vector<long>{0, 0, 1, 2, 5});
    long pool = r.pick(std::vector<long>{4, 10, 40, 150, 600});
    int nphases = (int)r.range(1, 3);
    for (int p = 0; p < nphases; p++) {
        Phase ph;
        ph.kind = 1;
        int n = (int)r.range(2, thorough ? 500 : 60);
        bool same_seq = r.chance(1, 4);  // every task interns the same sequence: maximal contention on each value
        for (int t = 0; t < T; t++) {
            std::vector<Op> ops;
            int nt = r.chance(1, 4) ? (int)r.range(1, n) : n;
            for (int i = 0; i < nt; i++) {
                Op o;
                int x = (int)r.below(100);
                o.code = x < 70 ? OP_INTERN : x < 88 ? OP_DECODE : OP_CONTAINS;
                o.a = same_seq && o.code == OP_INTERN ? (long)i % pool : (long)r.below(o.code == OP_CONTAINS ? pool * 2 : pool);
                if (o.code == OP_DECODE) o.a = (long)r.below(100000);
                ops.push_back(o);
            }
            ph.tasks.push_back(ops);
        }
        w.phases.push_back(ph);
    }
    return w;
}

void configure(sim::RunCfg& cfg, const Workload& w) {
    cfg.step_budget = 400000000;
    cfg.pct_est_steps = 60 * std::max<size_t>(1, w.total_ops());
    cfg.omp_threads = 8;
    sim::set_livelock_limit(3000000);
}

void execute(const Workload& w, Result&) {
    size_t lanes = (size_t)w.param("lanes", 1);
    g_hash_mod = (size_t)w.param("hash_mod", 0);
    switch ((int)w.param("variant", 0)) {
        case VAR_FLY: {
            FlySys s(lanes, (size_t)w.param("capacity", 8), w.param("reserve_first", 0) != 0);
            drive(s, w, false);
            COUNT("variant_flyweight");
            break;
        }
        case VAR_SYM: {
            SymSys s(lanes);
            drive(s, w, true);
            COUNT("variant_symboltable");
            break;
        }
        default: {
            RecSys s(lanes);
            drive(s, w, true);
            COUNT("variant_recordtable");
            break;
        }
    }
}

// Common driver for the data-structure harnesses (dsim).  Each harness is one
// instrumented translation unit that includes this file and defines
//   H_NAME, H_PROP, fault_mask_for_harness(), gen(), execute().
// Modes:
//   --batch START COUNT [--budget-s S]   loop over seeds, one JSON result line per run
//   --one SEED [--workload F] [--decisions F] [--emit-workload F] [--emit-decisions F]
// Options: --tier quick|thorough  --strategy N  --faults 0|1|auto  --cpu N  --plain N
#pragma once
#include "../simrt/simrt.h"

#include <algorithm>
#include <cinttypes>
#include <csignal>
#include <cstdarg>
#include <cstdio>
#include <cstdlib>
#include <cstring>
#include <cassert>
#include <ctime>
#include <malloc.h>
#include <map>
#include <new>
#include <sched.h>
#include <set>
#include <string>
#include <sys/syscall.h>
#include <sys/time.h>
#include <unistd.h>
#include <vector>

namespace dsim {

struct Op {
    int code = 0;
    long a = 0, b = 0, c = 0, d = 0;
};
struct Phase {
    int kind = 1;  // 1 = concurrent (one simulated task per script), 0 = sequential (scripts run one after another by main)
    std::vector<std::vector<Op>> tasks;
};
struct Workload {
    std::map<std::string, long> params;
    std::vector<Phase> phases;
    long param(const char* k, long dflt = 0) const {
        auto it = params.find(k);
        return it == params.end() ? dflt : it->second;
    }
    size_t total_ops() const {
        size_t n = 0;
        for (auto& p : phases)
            for (auto& t : p.tasks) n += t.size();
        return n;
    }
};

inline bool save_workload(const Workload& w, const char* path) {
    FILE* f = fopen(path, "w");
    if (!f) return false;
    for (auto& kv : w.params) fprintf(f, "param %s %ld\n", kv.first.c_str(), kv.second);
    for (auto& p : w.phases) {
        fprintf(f, "phase %d %zu\n", p.kind, p.tasks.size());
        for (auto& t : p.tasks) {
            fprintf(f, "task %zu\n", t.size());
            for (auto& o : t) fprintf(f, "op %d %ld %ld %ld %ld\n", o.code, o.a, o.b, o.c, o.d);
        }
    }
    fclose(f);
    return true;
}
inline bool load_workload(Workload& w, const char* path) {
    FILE* f = fopen(path, "r");
    if (!f) return false;
    char tag[32];
    w = Workload();
    while (fscanf(f, "%31s", tag) == 1) {
        if (!strcmp(tag, "param")) {
            char name[64];
            long v;
            if (fscanf(f, "%63s %ld", name, &v) != 2) break;
            w.params[name] = v;
        } else if (!strcmp(tag, "phase")) {
            int k;
            size_t n;
            if (fscanf(f, "%d %zu", &k, &n) != 2) break;
            w.phases.emplace_back();
            w.phases.back().kind = k;
        } else if (!strcmp(tag, "task")) {
            size_t n;
            if (fscanf(f, "%zu", &n) != 1) break;
            w.phases.back().tasks.emplace_back();
        } else if (!strcmp(tag, "op")) {
            Op o;
            if (fscanf(f, "%d %ld %ld %ld %ld", &o.code, &o.a, &o.b, &o.c, &o.d) != 5) break;
            w.phases.back().tasks.back().push_back(o);
        }
    }
    fclose(f);
    return true;
}

// small independent PRNG for workload generation (seeded from the run seed)
struct Rng {
    uint64_t s;
    explicit Rng(uint64_t seed) : s(seed ^ 0x776f726b6c6f6164ull) { (void)sim::splitmix(s); }
    uint64_t next() { return sim::splitmix(s); }
    uint64_t below(uint64_t n) { return n ? next() % n : 0; }
    long range(long lo, long hi) { return lo + (long)below((uint64_t)(hi - lo + 1)); }  // inclusive
    bool chance(unsigned num, unsigned den) { return below(den) < num; }
    template <typename T>
    const T& pick(const std::vector<T>& v) { return v[below(v.size())]; }
};

// ------------------------------------------------------------------ result of one run
struct Result {
    bool ok = true;
    std::string cls, msg;
    uint64_t ops = 0;       // operations executed
    uint64_t checks = 0;    // oracle comparisons made
    std::map<std::string, uint64_t> counters;  // harness-level "rare condition reached" counters
};
static Result* g_res = nullptr;
static uint64_t g_cur_seed = 0;
static int g_cur_faults = 0;
static const char* g_tier = "quick";
static const char* g_emit_decisions_path = nullptr;

inline void FAIL(const char* cls, const char* fmt, ...) {
    if (!g_res || !g_res->ok) return;  // keep the first violation
    char buf[600];
    va_list ap;
    va_start(ap, fmt);
    vsnprintf(buf, sizeof buf, fmt, ap);
    va_end(ap);
    g_res->ok = false;
    g_res->cls = cls;
    g_res->msg = buf;
}
#define CHECK(cond, cls, ...)                  \
    do {                                       \
        if (dsim::g_res) dsim::g_res->checks++; \
        if (!(cond)) dsim::FAIL(cls, __VA_ARGS__); \
    } while (0)
struct NoPreempt {
    NoPreempt() { sim::nopreempt_begin(); }
    ~NoPreempt() { sim::nopreempt_end(); }
};
inline void OPDONE() {
    NoPreempt np;
    if (g_res) g_res->ops++;
}
inline void COUNT(const char* name, uint64_t n = 1) {
    NoPreempt np;
    if (g_res) g_res->counters[name] += n;
}

inline std::string jesc(const std::string& s) {
    std::string o;
    for (char c : s) {
        if (c == '"' || c == '\\')
            o += '\\', o += c;
        else if ((unsigned char)c < 32)
            o += ' ';
        else
            o += c;
    }
    return o;
}

// emit a result line for a run that cannot return (crash, assertion, verdict) using only async-signal-safe calls
inline void emit_fatal(const char* cls, const char* msg) {
    char buf[900];
    int n = snprintf(buf, sizeof buf, "{\"seed\":%" PRIu64 ",\"ok\":false,\"fatal\":true,\"faults_on\":%d,\"cls\":\"%s\",\"msg\":\"", g_cur_seed,
            g_cur_faults, cls);
    for (const char* p = msg; *p && n < (int)sizeof buf - 8; p++) {
        char c = *p;
        if (c == '"' || c == '\\' || (unsigned char)c < 32) c = ' ';
        buf[n++] = c;
    }
    n += snprintf(buf + n, sizeof buf - n, "\"}\n");
    ssize_t r = write(1, buf, n);
    (void)r;
    // the schedule that led here (for replay/minimisation of crashes, assertions and verdicts)
    sim::dump_decisions(g_emit_decisions_path);
}

inline void crash_handler(int sig) {
    const char* n = sig == SIGSEGV ? "crash:SIGSEGV" : sig == SIGBUS ? "crash:SIGBUS" : sig == SIGFPE ? "crash:SIGFPE" : sig == SIGABRT ? "crash:SIGABRT" : "crash:signal";
    emit_fatal(n, "fatal signal during simulated run");
    _exit(70);
}
inline void term_handler(int) {
    emit_fatal("hang", "worker terminated by the orchestrator: no progress in real time");
    _exit(73);
}
inline void verdict_handler(int verdict, const char* msg) {
    const char* n = verdict == sim::V_DEADLOCK ? "deadlock" : verdict == sim::V_LIVELOCK ? "livelock" : "budget";
    emit_fatal(n, msg);
    _exit(72);
}

}  // namespace dsim

// Allocation-runaway guard: a structure that keeps allocating inside one simulated run (a retry loop that creates a node per
// round, a level raised for ever) would otherwise only end at the step budget after minutes of page faults.  The bytes that
// are live (operator new minus operator delete) are tracked while a run is active; legitimate runs stay far below the limit
// of 3 GiB (the maximum seen is printed as "alloc_max" on the END line of a batch).  Not instrumented, so it never adds a
// schedule point.
namespace dsim {
inline int64_t g_alloc_bytes = 0, g_alloc_max = 0;
inline bool g_alloc_track = false;
constexpr int64_t ALLOC_LIMIT = 3ll << 30;
}  // namespace dsim
__attribute__((no_sanitize("thread"))) void* operator new(std::size_t n) {
    void* p = malloc(n ? n : 1);
    if (!p) throw std::bad_alloc();
    if (dsim::g_alloc_track) {
        dsim::g_alloc_bytes += (int64_t)malloc_usable_size(p);
        if (dsim::g_alloc_bytes > dsim::g_alloc_max) dsim::g_alloc_max = dsim::g_alloc_bytes;
        if (dsim::g_alloc_bytes > dsim::ALLOC_LIMIT) {
            dsim::g_alloc_track = false;
            dsim::emit_fatal("alloc-runaway", "more than 3 GiB of live heap within one simulated run");
            _exit(74);
        }
    }
    return p;
}
__attribute__((no_sanitize("thread"))) void* operator new[](std::size_t n) {
    return operator new(n);
}
__attribute__((no_sanitize("thread"))) void operator delete(void* p) noexcept {
    if (dsim::g_alloc_track && p) dsim::g_alloc_bytes -= (int64_t)malloc_usable_size(p);
    free(p);
}
__attribute__((no_sanitize("thread"))) void operator delete[](void* p) noexcept {
    if (dsim::g_alloc_track && p) dsim::g_alloc_bytes -= (int64_t)malloc_usable_size(p);
    free(p);
}
__attribute__((no_sanitize("thread"))) void operator delete(void* p, std::size_t) noexcept {
    if (dsim::g_alloc_track && p) dsim::g_alloc_bytes -= (int64_t)malloc_usable_size(p);
    free(p);
}
__attribute__((no_sanitize("thread"))) void operator delete[](void* p, std::size_t) noexcept {
    if (dsim::g_alloc_track && p) dsim::g_alloc_bytes -= (int64_t)malloc_usable_size(p);
    free(p);
}

// an assertion inside the code under test firing under some schedule is a violation
extern "C" void __assert_fail(const char* expr, const char* file, unsigned int line, const char* /*func*/) noexcept {
    char cls[200], msg[400];
    const char* base = strrchr(file, '/');
    base = base ? base + 1 : file;
    snprintf(cls, sizeof cls, "assert:%s:%u", base, line);
    snprintf(msg, sizeof msg, "assertion failed: %s", expr);
    dsim::emit_fatal(cls, msg);
    _exit(71);
}

// ------------------------------------------------------------------ harness interface
extern const char* H_NAME;
extern const char* H_PROP;
unsigned harness_fault_mask();                                         // fault kinds meaningful for this harness
dsim::Workload gen(uint64_t seed, bool thorough);                      // seeded workload
void execute(const dsim::Workload& w, dsim::Result& res);              // run it under the simulator + oracles
void configure(sim::RunCfg& cfg, const dsim::Workload& w);             // harness-specific run configuration

namespace dsim {

static double now_s() {
    struct timespec ts;
    // real time for budget keeping only (never feeds a decision inside a run): raw syscall, not the interposed clock
    ::syscall(SYS_clock_gettime, CLOCK_MONOTONIC, &ts);
    return ts.tv_sec + ts.tv_nsec * 1e-9;
}

struct Options {
    bool thorough = false;
    int strategy = -1;
    int faults = -1;  // -1 auto (every 3rd seed), 0 never, 1 always
    int plain = -1;
    const char* workload = nullptr;
    const char* decisions = nullptr;
    const char* emit_workload = nullptr;
    const char* emit_decisions = nullptr;
    double budget_s = 0;
};

// After the first `detail` runs of a batch, successful runs are only summed up and reported in AGG lines.
struct Agg {
    uint64_t runs = 0, nontrivial = 0, steps = 0, switches = 0, sim_ns = 0, ops = 0, checks = 0, faults_on = 0;
    std::map<std::string, uint64_t> strategies, plain, faults;
    std::map<std::string, std::pair<uint64_t, uint64_t>> probes;
    std::set<uint64_t> hashes;  // distinct hashes of non-trivial runs (this worker)
    uint64_t distinct_reported = 0;
    void add(const Result& res, const sim::RunStats& st, int fo) {
        runs++;
        steps += st.steps;
        switches += st.switches;
        sim_ns += st.sim_ns;
        ops += res.ops;
        checks += res.checks;
        faults_on += fo == 1;
        strategies[sim::strategy_name(st.strategy)]++;
        plain[std::to_string(st.plain_period)]++;
        for (int i = 0; i < sim::F_COUNT; i++)
            if (st.faults[i]) faults[sim::fault_name(i)] += st.faults[i];
        for (auto& kv : st.probes) {
            probes[kv.first].first += kv.second;
            probes[kv.first].second++;
        }
        for (auto& kv : res.counters) {
            probes["h:" + kv.first].first += kv.second;
            probes["h:" + kv.first].second++;
        }
        if (st.max_tasks >= 3 && st.preemptions >= 1) {
            nontrivial++;
            if (hashes.size() < 4000000) hashes.insert(st.hash);
        }
    }
    void flush() {
        if (!runs) return;
        std::string s = "{\"agg\":true";
        char buf[256];
        snprintf(buf, sizeof buf, ",\"runs\":%" PRIu64 ",\"nontrivial\":%" PRIu64 ",\"steps\":%" PRIu64 ",\"switches\":%" PRIu64 ",\"sim_ns\":%" PRIu64
                ",\"ops\":%" PRIu64 ",\"checks\":%" PRIu64 ",\"faults_on\":%" PRIu64 ",\"new_distinct\":%" PRIu64,
                runs, nontrivial, steps, switches, sim_ns, ops, checks, faults_on, (uint64_t)hashes.size() - distinct_reported);
        s += buf;
        distinct_reported = hashes.size();
        auto dump = [&](const char* name, const std::map<std::string, uint64_t>& m) {
            s += std::string(",\"") + name + "\":{";
            bool first = true;
            for (auto& kv : m) {
                snprintf(buf, sizeof buf, "%s\"%s\":%" PRIu64, first ? "" : ",", kv.first.c_str(), kv.second);
                s += buf;
                first = false;
            }
            s += "}";
        };
        dump("strategies", strategies);
        dump("plain", plain);
        dump("faults", faults);
        s += ",\"probes\":{";
        bool first = true;
        for (auto& kv : probes) {
            snprintf(buf, sizeof buf, "%s\"%s\":[%" PRIu64 ",%" PRIu64 "]", first ? "" : ",", kv.first.c_str(), kv.second.first, kv.second.second);
            s += buf;
            first = false;
        }
        s += "}}\n";
        fputs(s.c_str(), stdout);
        fflush(stdout);
        runs = nontrivial = steps = switches = sim_ns = ops = checks = faults_on = 0;
        strategies.clear();
        plain.clear();
        faults.clear();
        probes.clear();
    }
};
static Agg* g_agg = nullptr;

inline void print_result(uint64_t seed, const Workload& w, const Result& res, const sim::RunStats& st, int faults_on) {
    if (g_agg && res.ok) {
        g_agg->add(res, st, faults_on);
        // a line at least every few seconds: the orchestrator's watchdog takes silence for a hang
        static double last_flush = 0;
        double t = now_s();
        if (g_agg->runs >= 1000 || t - last_flush > 5.0) {
            g_agg->flush();
            last_flush = t;
        }
        return;
    }
    std::string s;
    char buf[512];
    snprintf(buf, sizeof buf,
            "{\"seed\":%" PRIu64 ",\"ok\":%s,\"faults_on\":%d,\"strategy\":\"%s\",\"plain\":%d,\"steps\":%" PRIu64 ",\"switches\":%" PRIu64
            ",\"preempt\":%" PRIu64 ",\"hash\":\"%016" PRIx64 "\",\"sim_ns\":%" PRIu64 ",\"tasks\":%" PRIu64 ",\"nops\":%zu,\"ops\":%" PRIu64
            ",\"checks\":%" PRIu64 ",\"spin\":%" PRIu64,
            seed, res.ok ? "true" : "false", faults_on, sim::strategy_name(st.strategy), st.plain_period, st.steps, st.switches, st.preemptions,
            st.hash, st.sim_ns, st.max_tasks, w.total_ops(), res.ops, res.checks, st.spin_yields);
    s = buf;
    if (!res.ok) s += ",\"cls\":\"" + jesc(res.cls) + "\",\"msg\":\"" + jesc(res.msg) + "\"";
    s += ",\"faults\":{";
    bool first = true;
    for (int i = 0; i < sim::F_COUNT; i++)
        if (st.faults[i]) {
            snprintf(buf, sizeof buf, "%s\"%s\":%" PRIu64, first ? "" : ",", sim::fault_name(i), st.faults[i]);
            s += buf;
            first = false;
        }
    s += "},\"probes\":{";
    first = true;
    for (auto& kv : st.probes) {
        snprintf(buf, sizeof buf, "%s\"%s\":%" PRIu64, first ? "" : ",", kv.first.c_str(), kv.second);
        s += buf;
        first = false;
    }
    for (auto& kv : res.counters) {
        snprintf(buf, sizeof buf, "%s\"h:%s\":%" PRIu64, first ? "" : ",", kv.first.c_str(), kv.second);
        s += buf;
        first = false;
    }
    s += "}}\n";
    fputs(s.c_str(), stdout);
    fflush(stdout);
}

inline bool run_one(uint64_t seed, const Options& o) {
    Workload w;
    if (o.workload) {
        if (!load_workload(w, o.workload)) {
            fprintf(stderr, "cannot read workload %s\n", o.workload);
            exit(2);
        }
    } else {
        w = gen(seed, o.thorough);
    }
    if (o.emit_workload) save_workload(w, o.emit_workload);
    unsigned mask = harness_fault_mask();
    int faults_on = o.faults == 1 ? 1 : o.faults == 0 ? 0 : (mask && (seed % 3 == 2)) ? 1 : 0;
    sim::RunCfg cfg;
    cfg.seed = seed;
    cfg.strategy = o.strategy;
    cfg.plain_period = o.plain;
    cfg.fault_mask = faults_on ? mask : 0;
    // schedule-only "faults" (team/loop variation) are not used by dsim harnesses
    configure(cfg, w);
    std::vector<sim::Decision> dec;
    if (o.decisions) {
        FILE* f = fopen(o.decisions, "r");
        unsigned long long a;
        unsigned b;
        if (f) {
            while (fscanf(f, "%llu %u", &a, &b) == 2) dec.push_back(sim::Decision{a, b});
            fclose(f);
        }
        cfg.replay = &dec;
        cfg.strategy = sim::ST_REPLAY;
    }
    Result res;
    g_res = &res;
    g_emit_decisions_path = o.emit_decisions;
    g_cur_seed = seed;
    g_cur_faults = faults_on;
    g_alloc_bytes = 0;
    g_alloc_track = true;
    sim::run_begin(cfg);
    execute(w, res);
    sim::RunStats st = sim::run_end();
    g_alloc_track = false;
    g_res = nullptr;
    print_result(seed, w, res, st, faults_on);
    if (o.emit_decisions) {
        FILE* f = fopen(o.emit_decisions, "w");
        if (f) {
            for (auto& d : st.decisions) fprintf(f, "%llu %u\n", (unsigned long long)d.step, d.rank);
            fclose(f);
        }
    }
    return res.ok;
}

inline int main_impl(int argc, char** argv) {
    Options o;
    uint64_t start = 0, count = 0, one = 0, stride = 1, detail = 2000;
    bool batch = false, single = false;
    for (int i = 1; i < argc; i++) {
        std::string a = argv[i];
        auto need = [&](int n) {
            if (i + n >= argc) {
                fprintf(stderr, "missing argument for %s\n", a.c_str());
                exit(2);
            }
        };
        if (a == "--batch") {
            need(2);
            batch = true;
            start = strtoull(argv[++i], 0, 0);
            count = strtoull(argv[++i], 0, 0);
        } else if (a == "--stride") {
            need(1);
            stride = strtoull(argv[++i], 0, 0);
            if (!stride) stride = 1;
        } else if (a == "--detail") {
            need(1);
            detail = strtoull(argv[++i], 0, 0);
        } else if (a == "--one") {
            need(1);
            single = true;
            one = strtoull(argv[++i], 0, 0);
        } else if (a == "--tier") {
            need(1);
            o.thorough = !strcmp(argv[++i], "thorough");
        } else if (a == "--strategy") {
            need(1);
            o.strategy = atoi(argv[++i]);
        } else if (a == "--faults") {
            need(1);
            const char* v = argv[++i];
            o.faults = !strcmp(v, "auto") ? -1 : atoi(v);
        } else if (a == "--plain") {
            need(1);
            o.plain = atoi(argv[++i]);
        } else if (a == "--workload") {
            need(1);
            o.workload = argv[++i];
        } else if (a == "--decisions") {
            need(1);
            o.decisions = argv[++i];
        } else if (a == "--emit-workload") {
            need(1);
            o.emit_workload = argv[++i];
        } else if (a == "--emit-decisions") {
            need(1);
            o.emit_decisions = argv[++i];
        } else if (a == "--budget-s") {
            need(1);
            o.budget_s = atof(argv[++i]);
        } else if (a == "--cpu") {
            need(1);
            cpu_set_t cs;
            CPU_ZERO(&cs);
            CPU_SET(atoi(argv[++i]), &cs);
            sched_setaffinity(0, sizeof cs, &cs);
        } else {
            fprintf(stderr, "unknown option %s\n", a.c_str());
            return 2;
        }
    }
    g_tier = o.thorough ? "thorough" : "quick";
    signal(SIGSEGV, crash_handler);
    signal(SIGBUS, crash_handler);
    signal(SIGFPE, crash_handler);
    signal(SIGABRT, crash_handler);
    signal(SIGTERM, term_handler);
    sim::set_abort_handler(verdict_handler);
    // warm-up: function-local statics, lazily created thread pools and allocator arenas are initialised by a fixed set of
    // runs, so that a seed behaves the same first in a fresh process (--one, replay) and in the middle of a batch
    {
        Options wo = o;
        wo.workload = wo.decisions = wo.emit_workload = wo.emit_decisions = nullptr;
        FILE* saved = stdout;
        FILE* devnull = fopen("/dev/null", "w");
        if (devnull) {
            stdout = devnull;
            for (uint64_t s = 1; s <= 12; s++) run_one(0x77a7000 + s, wo);
            fflush(stdout);
            stdout = saved;
            fclose(devnull);
        }
    }
    if (single) {
        bool ok = run_one(one, o);
        return ok ? 0 : 1;
    }
    if (batch) {
        double t0 = now_s();
        uint64_t done = 0;
        for (uint64_t j = 0; j < count; j++) {
            uint64_t s = start + j * stride;
            static Agg agg;
            if (j >= detail) g_agg = &agg;
            if (!g_agg) {
                printf("START %" PRIu64 "\n", s);
                fflush(stdout);
            } else {
                // cheap crash witness without flushing a line per run
                g_cur_seed = s;
            }
            run_one(s, o);
            done++;
            if (o.budget_s > 0 && now_s() - t0 > o.budget_s) break;
        }
        if (g_agg) g_agg->flush();
        printf("END %" PRIu64 " alloc_max=%" PRId64 "\n", done, g_alloc_max);
        fflush(stdout);
        return 0;
    }
    fprintf(stderr, "usage: %s --batch START COUNT | --one SEED [...]\n", argv[0]);
    return 2;
}

}  // namespace dsim

int main(int argc, char** argv) {
    return dsim::main_impl(argc, argv);
}

// C25 — B-tree sets behave as sorted sets under concurrent insertion (BTree.h + OptimisticReadWriteLock).
#include "souffle/utility/StreamUtil.h"
#include "btree_common.h"

#include "souffle/datastructure/BTree.h"
#include "souffle/utility/StreamUtil.h"
#include "souffle/utility/ContainerUtil.h"
#include "souffle/RamTypes.h"
#include "souffle/SouffleInterface.h"

const char* H_NAME = "btree";
const char* H_PROP = "C25";
unsigned harness_fault_mask() {
    return 0;  // no weak CAS / try_lock on this path: pure schedule exploration
}

using namespace dsim;
using souffle::RamDomain;
using T2 = souffle::Tuple<RamDomain, 2>;
using T3 = souffle::Tuple<RamDomain, 3>;

static std::string istr(long v) {
    return std::to_string(v);
}

template <unsigned BS, bool Multi>
struct VInt {
    using Key = int;
    using Tree = std::conditional_t<Multi, souffle::btree_multiset<int, souffle::detail::comparator<int>, std::allocator<int>, BS>,
            souffle::btree_set<int, souffle::detail::comparator<int>, std::allocator<int>, BS>>;
    static constexpr bool multi = Multi, prov = false, has_erase = false;
    static Key mk(const Op& o) { return (int)o.a; }
    static bool less(Key a, Key b) { return a < b; }
    static bool full_eq(Key a, Key b) { return a == b; }
    static bool weak_eq(Key a, Key b) { return a == b; }
    static bool payload_less(Key, Key) { return false; }
    static std::string str(Key k) { return istr(k); }
    static const char* name() {
        static std::string n = std::string(Multi ? "multiset_int_bs" : "set_int_bs") + std::to_string(BS);
        return n.c_str();
    }
};

struct T2Cmp {
    int operator()(const T2& a, const T2& b) const { return a[0] < b[0] ? -1 : a[0] > b[0] ? 1 : a[1] < b[1] ? -1 : a[1] > b[1] ? 1 : 0; }
    bool less(const T2& a, const T2& b) const { return (*this)(a, b) < 0; }
    bool equal(const T2& a, const T2& b) const { return (*this)(a, b) == 0; }
};
struct VTuple2 {
    using Key = T2;
    using Tree = souffle::btree_set<T2, T2Cmp>;  // production block size 256
    static constexpr bool multi = false, prov = false, has_erase = false;
    static Key mk(const Op& o) {
        T2 t;
        t[0] = (RamDomain)(int16_t)(o.a >> 16);
        t[1] = (RamDomain)(int16_t)(o.a & 0xffff);
        return t;
    }
    static bool less(const Key& a, const Key& b) { return T2Cmp()(a, b) < 0; }
    static bool full_eq(const Key& a, const Key& b) { return T2Cmp()(a, b) == 0; }
    static bool weak_eq(const Key& a, const Key& b) { return full_eq(a, b); }
    static bool payload_less(const Key&, const Key&) { return false; }
    static std::string str(const Key& k) { return "(" + istr(k[0]) + "," + istr(k[1]) + ")"; }
    static const char* name() { return "set_tuple2_bs256"; }
};

// provenance-style instantiation: strong comparator on all columns, weak comparator on the first, updater keeps the minimal (level, rule)
struct T3Full {
    int operator()(const T3& a, const T3& b) const {
        for (int i = 0; i < 3; i++) {
            if (a[i] < b[i]) return -1;
            if (a[i] > b[i]) return 1;
        }
        return 0;
    }
    bool less(const T3& a, const T3& b) const { return (*this)(a, b) < 0; }
    bool equal(const T3& a, const T3& b) const { return (*this)(a, b) == 0; }
};
struct T3Weak {
    int operator()(const T3& a, const T3& b) const { return a[0] < b[0] ? -1 : a[0] > b[0] ? 1 : 0; }
    bool less(const T3& a, const T3& b) const { return a[0] < b[0]; }
    bool equal(const T3& a, const T3& b) const { return a[0] == b[0]; }
};
struct T3Upd {  // same rule as interpreter::ProvenanceUpdater<3,2>: column 2 = level, column 1 = rule
    bool update(T3& old_t, const T3& new_t) {
        if (new_t[2] < old_t[2] || (new_t[2] == old_t[2] && new_t[1] < old_t[1])) {
            old_t[2] = new_t[2];
            old_t[1] = new_t[1];
            return true;
        }
        return false;
    }
};
template <unsigned BS>
struct VProv {
    using Key = T3;
    using Tree = souffle::btree_set<T3, T3Full, std::allocator<T3>, BS, typename souffle::detail::default_strategy<T3>::type, T3Weak, T3Upd>;
    static constexpr bool multi = false, prov = true, has_erase = false;
    static Key mk(const Op& o) {
        T3 t;
        t[0] = (RamDomain)o.a;
        t[1] = (RamDomain)o.c;
        t[2] = (RamDomain)o.b;
        return t;
    }
    static bool less(const Key& a, const Key& b) { return T3Full()(a, b) < 0; }
    static bool full_eq(const Key& a, const Key& b) { return T3Full()(a, b) == 0; }
    static bool weak_eq(const Key& a, const Key& b) { return a[0] == b[0]; }
    static bool payload_less(const Key& a, const Key& b) { return a[2] < b[2] || (a[2] == b[2] && a[1] < b[1]); }
    static std::string str(const Key& k) { return "(" + istr(k[0]) + "," + istr(k[1]) + "," + istr(k[2]) + ")"; }
    static const char* name() { return BS == 256 ? "provenance_tuple3_bs256" : "provenance_tuple3_small"; }
};

enum { VAR_INT3 = 0, VAR_INT4, VAR_INT7, VAR_TUPLE2, VAR_MULTI3, VAR_MULTI7, VAR_PROV_SMALL, VAR_PROV256, VAR_COUNT };

static std::vector<Op> gen_keys(Rng& r, int variant, int n, int task, int T, int pattern, long D, long base, bool fresh_hints_some) {
    std::vector<Op> ops;
    for (int i = 0; i < n; i++) {
        Op o;
        o.code = bt::OP_INSERT;
        switch (pattern) {
            case 0: o.a = base + (long)r.below(D); break;                                       // random over a dense domain: many duplicates
            case 1: o.a = base + (long)i * T + task; break;                                      // globally ascending, interleaved between tasks
            case 2: o.a = base + D - ((long)i * T + task); break;                                // descending
            case 3: o.a = base + (long)task * n + i; break;                                      // each task its own ascending block
            case 4: o.a = base + ((long)r.below(D / 8 + 1)) * 8 + (long)r.below(3) - 1; break;   // clusters at node boundaries
            case 5: o.a = base + (long)i; break;                                                 // every task inserts the same ascending sequence
            default: {
                static const long ext[] = {INT_MIN, INT_MIN + 1, -1, 0, 1, INT_MAX - 1, INT_MAX};
                o.a = r.chance(1, 3) ? ext[r.below(7)] : (long)(int)r.next();
            }
        }
        if (variant == VAR_PROV_SMALL || variant == VAR_PROV256) {
            o.b = (long)r.below(6);  // level
            o.c = (long)r.below(4);  // rule
        }
        if (fresh_hints_some && r.chance(1, 8)) o.d |= 1;
        ops.push_back(o);
    }
    return ops;
}

Workload gen(uint64_t seed, bool thorough) {
    Rng r(seed);
    Workload w;
    int variant = (int)r.below(VAR_COUNT);
    w.params["variant"] = variant;
    w.params["probe_seed"] = (long)(r.next() & 0x7fffffff);
    w.params["probes"] = thorough ? 120 : 40;
    int T = (int)r.range(2, 8);
    if (r.chance(1, 3)) T = (int)r.range(2, 3);
    int nphases = (int)r.range(1, 3);
    long base = r.chance(1, 4) ? -50 : 0;
    for (int p = 0; p < nphases; p++) {
        int pattern = (int)r.below(7);
        int maxn = thorough ? (r.chance(1, 4) ? 2000 : 300) : (r.chance(1, 6) ? 400 : 60);
        int n = (int)r.range(3, maxn);
        long D = r.pick(std::vector<long>{8, 32, 128, 1000, 100000});
        if (pattern == 2) D = (long)n * T + 10;
        Phase ph;
        ph.kind = 1;
        bool fresh = r.chance(1, 2);
        for (int t = 0; t < T; t++) {
            int nt = r.chance(1, 4) ? (int)r.range(1, n) : n;
            ph.tasks.push_back(gen_keys(r, variant, nt, t, T, pattern, D, base, fresh));
        }
        w.phases.push_back(ph);
        if (r.chance(1, 3)) {
            // concurrent read-only phase over the same key population
            Phase q;
            q.kind = 2;
            for (int t = 0; t < T; t++) {
                auto ops = gen_keys(r, variant, (int)r.range(3, thorough ? 200 : 40), t, T, (int)r.below(7), D, base, false);
                for (auto& o : ops) o.code = (int)r.range(bt::OP_CONTAINS, bt::OP_UPPER);
                q.tasks.push_back(ops);
            }
            w.phases.push_back(q);
        }
    }
    return w;
}

void configure(sim::RunCfg& cfg, const Workload& w) {
    cfg.step_budget = 400000000;
    cfg.pct_est_steps = 60 * std::max<size_t>(1, w.total_ops());
    sim::set_livelock_limit(2000000);
}

template <typename V>
static void run_variant(const Workload& w) {
    bt::Runner<V> r;
    r.execute(w);
}

void execute(const Workload& w, Result&) {
    switch ((int)w.param("variant", 0)) {
        case VAR_INT3: run_variant<VInt<16, false>>(w); break;
        case VAR_INT4: run_variant<VInt<48, false>>(w); break;
        case VAR_INT7: run_variant<VInt<60, false>>(w); break;
        case VAR_TUPLE2: run_variant<VTuple2>(w); break;
        case VAR_MULTI3: run_variant<VInt<16, true>>(w); break;
        case VAR_MULTI7: run_variant<VInt<60, true>>(w); break;
        case VAR_PROV_SMALL: run_variant<VProv<72>>(w); break;
        default: run_variant<VProv<256>>(w); break;
    }
}

// C30 — the optimistic read/write lock protocol is safe.
// System under simulation: the real souffle::OptimisticReadWriteLock guarding a
// two-word shadow record that writers update in two separated stores.
#include "common.h"

#include "souffle/utility/ParallelUtil.h"

#include <atomic>

const char* H_NAME = "orwl";
const char* H_PROP = "C30";
unsigned harness_fault_mask() {
    return 0;  // the lock has no weak CAS / try_lock: pure schedule exploration
}

using namespace dsim;
using Lock = souffle::OptimisticReadWriteLock;

enum OpCode {
    OP_READ_VALIDATE = 1,  // start_read, read both words, validate
    OP_READ_ENDREAD,       // start_read, read both words, end_read
    OP_READ_UPGRADE,       // start_read, read, try_upgrade_to_write; a=1 commit (modify + end_write), a=0 abort_write
    OP_WRITE,              // start_write; a=1 commit, a=0 abort
    OP_TRYWRITE,           // try_start_write; a=1 commit, a=0 abort
    OP_READ_TWICE,         // start_read, read, validate, read again, validate again (a lease validated twice)
};

struct WritePhase {
    uint64_t obegin, ibegin, iend, oend;  // outer/inner stamps (outer ⊇ true interval ⊇ inner)
    bool committed;
    int task;
    bool transient = false;  // a failed try_upgrade_to_write: may set the version odd for a moment and undo it
};
struct TryFail {
    uint64_t obegin, oend;
    int task;
};
struct ReadRec {
    uint64_t louter, linner, vinner, vouter;  // lease / validation stamps
    bool ok;
    long ra, rb;
    long model_at_lease;
    int task;
    int kind;
};

struct World {
    Lock lock;
    std::atomic<long> a{0}, b{0};  // the protected record; invariant when stable: a == b
    int inside = 0;                // writers between acquisition and release (harness-side)
    long model = 0;                // last committed value
    std::vector<WritePhase> writes;
    std::vector<ReadRec> reads;
    std::vector<TryFail> tryfails;
    int max_inside = 0;
};
static World* W = nullptr;

static void step_hook(void*) {
    // (i) at most one writer at every step
    if (W && W->inside > 1) FAIL("two-writers", "%d writers hold the lock at step %llu", W->inside, (unsigned long long)sim::steps());
}

static size_t begin_write(int task, uint64_t obegin) {
    NoPreempt np;
    World& w = *W;
    w.inside++;
    if (w.inside > w.max_inside) w.max_inside = w.inside;
    CHECK(w.inside <= 1, "two-writers", "task %d acquired write permission while %d other writer(s) hold it", task, w.inside - 1);
    CHECK(w.lock.is_write_locked(), "not-write-locked", "is_write_locked() is false inside a write phase (task %d)", task);
    w.writes.push_back(WritePhase{obegin, sim::stamp(), 0, 0, false, task});
    return w.writes.size() - 1;
}

static void write_body(int task, size_t idx, bool commit, long value) {
    World& w = *W;
    if (commit) {
        // two separated stores: a torn read is observable by an unprotected reader
        w.a.store(value, std::memory_order_relaxed);
        w.b.store(value, std::memory_order_relaxed);
    }
    {
        NoPreempt np;
        if (commit) w.model = value;
        w.writes[idx].committed = commit;
        w.writes[idx].iend = sim::stamp();
        w.inside--;
    }
    if (commit)
        w.lock.end_write();
    else
        w.lock.abort_write();
    {
        NoPreempt np;
        w.writes[idx].oend = sim::stamp();
    }
    (void)task;
}

static void run_script(int task, const std::vector<Op>& ops) {
    World& w = *W;
    long seq = 0;
    for (const Op& op : ops) {
        long value = ((long)(task + 1) << 20) | (++seq);
        switch (op.code) {
            case OP_READ_VALIDATE:
            case OP_READ_ENDREAD:
            case OP_READ_TWICE: {
                ReadRec r{};
                r.task = task;
                r.kind = op.code;
                r.louter = sim::stamp();
                auto lease = w.lock.start_read();
                {
                    NoPreempt np;
                    r.linner = sim::stamp();
                    r.model_at_lease = w.model;
                }
                r.ra = w.a.load(std::memory_order_relaxed);
                r.rb = w.b.load(std::memory_order_relaxed);
                r.vinner = sim::stamp();
                r.ok = op.code == OP_READ_ENDREAD ? w.lock.end_read(lease) : w.lock.validate(lease);
                r.vouter = sim::stamp();
                {
                    NoPreempt np;
                    w.reads.push_back(r);
                }
                if (op.code == OP_READ_TWICE) {
                    // the same lease validated a second time after a second read of the record
                    ReadRec r2 = r;
                    r2.ra = w.a.load(std::memory_order_relaxed);
                    r2.rb = w.b.load(std::memory_order_relaxed);
                    r2.vinner = sim::stamp();
                    r2.ok = w.lock.validate(lease);
                    r2.vouter = sim::stamp();
                    NoPreempt np;
                    w.reads.push_back(r2);
                    // monotone: once a lease is invalid it stays invalid... unless only aborted writes intervened; checked via history
                }
                break;
            }
            case OP_READ_UPGRADE: {
                ReadRec r{};
                r.task = task;
                r.kind = op.code;
                r.louter = sim::stamp();
                auto lease = w.lock.start_read();
                {
                    NoPreempt np;
                    r.linner = sim::stamp();
                    r.model_at_lease = w.model;
                }
                r.ra = w.a.load(std::memory_order_relaxed);
                r.rb = w.b.load(std::memory_order_relaxed);
                r.vinner = sim::stamp();
                uint64_t ob = r.vinner;
                r.ok = w.lock.try_upgrade_to_write(lease);
                if (r.ok) {
                    size_t idx = begin_write(task, ob);
                    {
                        NoPreempt np;
                        r.vouter = w.writes[idx].ibegin;
                        w.reads.push_back(r);
                    }
                    write_body(task, idx, op.a != 0, value);
                } else {
                    NoPreempt np;
                    r.vouter = sim::stamp();
                    w.reads.push_back(r);
                    WritePhase tp{r.vinner, 0, 0, r.vouter, false, task};
                    tp.transient = true;
                    w.writes.push_back(tp);
                }
                break;
            }
            case OP_WRITE: {
                uint64_t ob = sim::stamp();
                w.lock.start_write();
                size_t idx = begin_write(task, ob);
                write_body(task, idx, op.a != 0, value);
                break;
            }
            case OP_TRYWRITE: {
                uint64_t ob = sim::stamp();
                if (w.lock.try_start_write()) {
                    size_t idx = begin_write(task, ob);
                    write_body(task, idx, op.a != 0, value);
                    COUNT("trywrite_ok");
                } else {
                    // a failed try_start_write is only legal while somebody else holds the lock (checked from the history)
                    NoPreempt np;
                    w.tryfails.push_back(TryFail{ob, sim::stamp(), task});
                    COUNT("trywrite_fail");
                }
                break;
            }
        }
        sim::note(((uint64_t)task << 32) ^ (uint64_t)op.code);
        OPDONE();
    }
}

static void check_history() {
    World& w = *W;
    for (const ReadRec& r : w.reads) {
        // (ii) soundness: a successful validation implies no overlapping committed write and no write in progress
        // Conservative (inner) intervals: overlap of inner intervals implies true overlap.
        bool inner_overlap = false, justified_fail = false;
        for (const WritePhase& ph : w.writes) {
            if (ph.task == r.task && r.kind == OP_READ_UPGRADE && ph.obegin == r.vinner) continue;  // the upgrade's own phase
            uint64_t iend = ph.iend ? ph.iend : UINT64_MAX;
            uint64_t oend = ph.oend ? ph.oend : UINT64_MAX;
            if (!ph.transient) {
                // committed: acquired before the validation started and released after the lease was issued
                if (ph.committed && ph.ibegin < r.vinner && iend > r.linner) inner_overlap = true;
                // aborted: held the lock during the whole validation call
                if (!ph.committed && ph.ibegin < r.vinner && iend > r.vouter) inner_overlap = true;
            }
            // (iii) a failed validation is justified by a write phase that possibly overlapped (outer intervals):
            // a committed one anywhere inside the read phase, an aborted/transient one possibly still active at validation
            bool out_overlap = ph.obegin < r.vouter && oend > r.louter;
            if (out_overlap && (ph.committed || oend > r.vinner)) justified_fail = true;
        }
        if (r.ok) {
            CHECK(!inner_overlap, "validate-unsound",
                    "task %d: validation succeeded although a write phase overlapped the read phase (lease@%llu validate@%llu)", r.task,
                    (unsigned long long)r.linner, (unsigned long long)r.vinner);
            CHECK(r.ra == r.rb, "torn-read", "task %d: validated snapshot is torn: a=%ld b=%ld", r.task, r.ra, r.rb);
            CHECK(r.ra == r.model_at_lease, "stale-read", "task %d: validated snapshot %ld is not the committed value %ld", r.task, r.ra,
                    r.model_at_lease);
            COUNT("validate_true");
        } else {
            CHECK(justified_fail, "abort-imprecise",
                    "task %d: validation failed although every overlapping write phase had been aborted before it (lease@%llu validate@%llu)",
                    r.task, (unsigned long long)r.louter, (unsigned long long)r.vouter);
            COUNT("validate_false");
        }
    }
    for (const TryFail& tf : w.tryfails) {
        bool justified = false;
        for (const WritePhase& ph : w.writes) {
            uint64_t oend = ph.oend ? ph.oend : UINT64_MAX;
            if (ph.task != tf.task && ph.obegin < tf.oend && oend > tf.obegin) justified = true;
        }
        CHECK(justified, "trywrite-spurious", "task %d: try_start_write failed although nobody held or touched the lock during the attempt", tf.task);
    }
    for (const WritePhase& ph : w.writes)
        if (!ph.committed && !ph.transient) COUNT("aborted_writes");
    // quiescent: lock must be free and the version even
    bool locked = w.lock.is_write_locked();
    CHECK(!locked, "left-locked", "lock is still write-locked after all clients finished");
    if (!locked) {
        auto lease = w.lock.start_read();
        CHECK(w.lock.validate(lease), "final-validate", "fresh lease does not validate at quiescence");
    }
    CHECK(w.a.load() == w.model && w.b.load() == w.model, "final-value", "record (%ld,%ld) differs from last committed value %ld", w.a.load(),
            w.b.load(), w.model);
}

Workload gen(uint64_t seed, bool thorough) {
    Rng r(seed);
    Workload w;
    int T = (int)r.range(2, thorough ? 4 : 3);
    if (r.chance(1, 4)) T = 4;
    int maxops = thorough ? 24 : 10;
    // op mix profile per run (swarm): some runs are abort-heavy, some reader-heavy
    int profile = (int)r.below(4);
    Phase ph;
    ph.kind = 1;
    for (int t = 0; t < T; t++) {
        std::vector<Op> ops;
        int n = (int)r.range(1, maxops);
        for (int i = 0; i < n; i++) {
            Op o;
            int x = (int)r.below(100);
            bool commit = profile == 1 ? r.chance(1, 4) : r.chance(3, 4);
            if (profile == 2 && t > 0) {
                o.code = x < 45 ? OP_READ_VALIDATE : x < 70 ? OP_READ_ENDREAD : x < 85 ? OP_READ_TWICE : OP_READ_UPGRADE;
            } else {
                o.code = x < 20 ? OP_READ_VALIDATE : x < 30 ? OP_READ_ENDREAD : x < 40 ? OP_READ_TWICE : x < 60 ? OP_READ_UPGRADE : x < 80 ? OP_WRITE : OP_TRYWRITE;
            }
            o.a = commit;
            ops.push_back(o);
        }
        ph.tasks.push_back(ops);
    }
    w.phases.push_back(ph);
    return w;
}

void configure(sim::RunCfg& cfg, const Workload& w) {
    cfg.step_budget = 2000000;
    cfg.pct_est_steps = 40 * std::max<size_t>(1, w.total_ops());
    sim::set_livelock_limit(50000);  // (iv): a lock operation spinning with no writer active never finishes
}

void execute(const Workload& wl, Result& res) {
    World world;
    W = &world;
    sim::set_step_hook(step_hook, nullptr);
    for (const Phase& ph : wl.phases) {
        if (ph.kind == 1) {
            sim::parallel((int)ph.tasks.size(), [&](int t) { run_script(t, ph.tasks[t]); });
        } else {
            for (size_t t = 0; t < ph.tasks.size(); t++) run_script((int)t, ph.tasks[t]);
        }
        check_history();
        world.writes.clear();
        world.reads.clear();
        world.tryfails.clear();
    }
    sim::set_step_hook(nullptr, nullptr);
    if (world.max_inside > 0) COUNT("write_phases_seen");
    W = nullptr;
    (void)res;
}

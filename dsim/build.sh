#!/bin/bash
# build.sh <harness> [extra flags...]  — builds /verif/build/dsim/<harness> from $VERIF_REPO (default /repo)
set -e
H=$1; shift
OUTNAME=$H
if [ "$1" = "--out" ]; then OUTNAME=$2; shift; shift; fi
V="$(cd "$(dirname "$0")/.." && pwd)"   # root of the verif tree this script belongs to (may be a snapshot)
REPO=${VERIF_REPO:-/repo}
OUT=${VERIF_BUILD:-$V/build}/dsim
mkdir -p $OUT
CXX=${CXX:-g++}
SIMO=$OUT/simrt.o
if [ ! -f $SIMO ] || [ $V/simrt/simrt.cpp -nt $SIMO ] || [ $V/simrt/simrt.h -nt $SIMO ]; then
  $CXX -O2 -g -std=c++17 -c $V/simrt/simrt.cpp -o $SIMO.tmp.$$ && mv $SIMO.tmp.$$ $SIMO
fi
$CXX -std=c++17 -O1 -g -fopenmp -fsanitize=thread --param tsan-instrument-func-entry-exit=0 --param tsan-distinguish-volatile=1 \
  -DSOUFFLE_VERIF -w -I$REPO/src/include -I$V "$@" -c $V/dsim/$H.cpp -o $OUT/$OUTNAME.o
$CXX -o $OUT/$OUTNAME $OUT/$OUTNAME.o $SIMO -ldl -lpthread

// C26 — deletable B-trees behave as sorted sets (BTreeDelete.h): sequential insert/erase/query histories op by op
// against a sorted-set model, alternating with concurrent-insert phases (C25 oracle) on the trees erase leaves behind.
#include "souffle/utility/StreamUtil.h"
#include "btree_common.h"

#include "souffle/datastructure/BTreeDelete.h"
#include "souffle/RamTypes.h"
#include "souffle/SouffleInterface.h"

const char* H_NAME = "btreedelete";
const char* H_PROP = "C26";
unsigned harness_fault_mask() {
    return 0;
}

using namespace dsim;
using souffle::RamDomain;
using T2 = souffle::Tuple<RamDomain, 2>;

static std::string istr(long v) {
    return std::to_string(v);
}

template <unsigned BS, bool Multi>
struct VInt {
    using Key = int;
    using Tree = std::conditional_t<Multi, souffle::btree_delete_multiset<int, souffle::detail::comparator<int>, std::allocator<int>, BS>,
            souffle::btree_delete_set<int, souffle::detail::comparator<int>, std::allocator<int>, BS>>;
    static constexpr bool multi = Multi, prov = false, has_erase = true;
    static Key mk(const Op& o) { return (int)o.a; }
    static bool less(Key a, Key b) { return a < b; }
    static bool full_eq(Key a, Key b) { return a == b; }
    static bool weak_eq(Key a, Key b) { return a == b; }
    static bool payload_less(Key, Key) { return false; }
    static std::string str(Key k) { return istr(k); }
    static const char* name() {
        static std::string n = std::string(Multi ? "delete_multiset_int_bs" : "delete_set_int_bs") + std::to_string(BS);
        return n.c_str();
    }
};

struct T2Cmp {
    int operator()(const T2& a, const T2& b) const { return a[0] < b[0] ? -1 : a[0] > b[0] ? 1 : a[1] < b[1] ? -1 : a[1] > b[1] ? 1 : 0; }
    bool less(const T2& a, const T2& b) const { return (*this)(a, b) < 0; }
    bool equal(const T2& a, const T2& b) const { return (*this)(a, b) == 0; }
};
struct VTuple2 {
    using Key = T2;
    using Tree = souffle::btree_delete_set<T2, T2Cmp>;  // production block size 256
    static constexpr bool multi = false, prov = false, has_erase = true;
    static Key mk(const Op& o) {
        T2 t;
        t[0] = (RamDomain)(int16_t)(o.a >> 16);
        t[1] = (RamDomain)(int16_t)(o.a & 0xffff);
        return t;
    }
    static bool less(const Key& a, const Key& b) { return T2Cmp()(a, b) < 0; }
    static bool full_eq(const Key& a, const Key& b) { return T2Cmp()(a, b) == 0; }
    static bool weak_eq(const Key& a, const Key& b) { return full_eq(a, b); }
    static bool payload_less(const Key&, const Key&) { return false; }
    static std::string str(const Key& k) { return "(" + istr(k[0]) + "," + istr(k[1]) + ")"; }
    static const char* name() { return "delete_set_tuple2_bs256"; }
};

// (btree_delete_multiset::erase does not compile in the repository: the iterator befriends only the isSet=true tree;
// it can therefore not be called and is not part of the harness)
enum { VAR_INT3 = 0, VAR_INT4, VAR_INT7, VAR_TUPLE2, VAR_COUNT };

static long draw_key(Rng& r, int range_kind, long D) {
    if (range_kind == 0) return (long)r.below(D);             // small dense range: every merge/rebalance path
    if (range_kind == 1) return (long)(int)r.next();          // sparse 32-bit
    static const long ext[] = {INT_MIN, INT_MIN + 1, -1, 0, 1, INT_MAX - 1, INT_MAX};
    return r.chance(1, 4) ? ext[r.below(7)] : (long)r.below(D) - D / 2;
}

Workload gen(uint64_t seed, bool thorough) {
    Rng r(seed);
    Workload w;
    int variant = (int)r.below(VAR_COUNT);
    w.params["variant"] = variant;
    w.params["probe_seed"] = (long)(r.next() & 0x7fffffff);
    w.params["probes"] = thorough ? 100 : 30;
    int range_kind = (int)r.below(3);
    long D = r.pick(std::vector<long>{8, 32, 32, 200, 2000});
    int nphases = (int)r.range(1, thorough ? 5 : 3);
    std::vector<long> used;  // keys inserted so far (erase targets)
    for (int p = 0; p < nphases; p++) {
        bool concurrent = p > 0 && r.chance(1, 2);
        if (!concurrent) {
            // sequential mixed history
            Phase ph;
            ph.kind = 0;
            std::vector<Op> ops;
            int n = (int)r.range(5, thorough ? 500 : 120);
            int profile = (int)r.below(4);  // 0 grow, 1 balanced, 2 erase-heavy, 3 fill then drain completely
            for (int i = 0; i < n; i++) {
                Op o;
                int x = (int)r.below(100);
                int erase_pct = profile == 0 ? 10 : profile == 1 ? 35 : profile == 2 ? 55 : (i < n / 2 ? 0 : 90);
                if (x < erase_pct && !used.empty()) {
                    o.code = r.chance(1, 2) ? bt::OP_ERASE : bt::OP_ERASE_IT;
                    o.a = r.chance(9, 10) ? used[r.below(used.size())] : draw_key(r, range_kind, D);
                } else if (x < erase_pct + 15) {
                    o.code = (int)r.range(bt::OP_CONTAINS, bt::OP_UPPER);
                    o.a = !used.empty() && r.chance(1, 2) ? used[r.below(used.size())] + r.range(-1, 1) : draw_key(r, range_kind, D);
                } else {
                    o.code = bt::OP_INSERT;
                    o.a = draw_key(r, range_kind, D);
                    used.push_back(o.a);
                    if (r.chance(1, 6)) o.d |= 1;
                }
                if (r.chance(1, 10)) o.d |= 2;  // run the tree's own check() after this op
                ops.push_back(o);
            }
            ph.tasks.push_back(ops);
            w.phases.push_back(ph);
        } else {
            Phase ph;
            ph.kind = 1;
            int T = (int)r.range(2, 8);
            int n = (int)r.range(3, thorough ? 300 : 50);
            for (int t = 0; t < T; t++) {
                std::vector<Op> ops;
                for (int i = 0; i < n; i++) {
                    Op o;
                    o.code = bt::OP_INSERT;
                    o.a = draw_key(r, range_kind, D);
                    used.push_back(o.a);
                    if (r.chance(1, 8)) o.d |= 1;
                    ops.push_back(o);
                }
                ph.tasks.push_back(ops);
            }
            w.phases.push_back(ph);
        }
    }
    return w;
}

void configure(sim::RunCfg& cfg, const Workload& w) {
    cfg.step_budget = 400000000;
    cfg.pct_est_steps = 60 * std::max<size_t>(1, w.total_ops());
    sim::set_livelock_limit(2000000);
}

template <typename V>
static void run_variant(const Workload& w) {
    bt::Runner<V> r;
    r.execute(w);
}

void execute(const Workload& w, Result&) {
    switch ((int)w.param("variant", 0)) {
        case VAR_INT3: run_variant<VInt<16, false>>(w); break;
        case VAR_INT4: run_variant<VInt<48, false>>(w); break;
        case VAR_INT7: run_variant<VInt<60, false>>(w); break;
        default: run_variant<VTuple2>(w); break;
    }
}

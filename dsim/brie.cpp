// C27 — Brie tries behave as tuple sets under concurrent insertion (Brie.h: Trie<1..4>, SparseArray, SparseBitMap).
#include "souffle/utility/StreamUtil.h"
#include "common.h"

#include "souffle/datastructure/Brie.h"

#include <array>
#include <climits>

const char* H_NAME = "brie";
const char* H_PROP = "C27";
unsigned harness_fault_mask() {
    // Trie::insert publishes a new sub-trie with compare_exchange_weak: spurious failure is legal (and real on LL/SC targets)
    return 1u << sim::F_WEAK_CAS;
}

using namespace dsim;
using souffle::RamDomain;

enum OpCode { OP_INSERT = 1, OP_CONTAINS, OP_BOUNDS };
enum { VAR_T1 = 1, VAR_T2, VAR_T3, VAR_T4, VAR_BITMAP, VAR_ARRAY };

template <unsigned Dim>
using Tup = std::array<RamDomain, Dim>;

template <unsigned Dim>
struct ULess {  // the trie's iteration order: lexicographic on the elements read as unsigned indices
    bool operator()(const Tup<Dim>& a, const Tup<Dim>& b) const {
        for (unsigned i = 0; i < Dim; i++) {
            uint32_t x = (uint32_t)a[i], y = (uint32_t)b[i];
            if (x != y) return x < y;
        }
        return false;
    }
};

template <unsigned Dim>
static std::string tstr(const Tup<Dim>& t) {
    std::string s = "(";
    for (unsigned i = 0; i < Dim; i++) s += (i ? "," : "") + std::to_string(t[i]);
    return s + ")";
}

template <unsigned Dim>
static Tup<Dim> mk(const Op& o) {
    Tup<Dim> t;
    long v[4] = {o.a, o.b, o.c, o.d};
    for (unsigned i = 0; i < Dim; i++) t[i] = (RamDomain)v[i];
    return t;
}

template <unsigned Dim>
struct TrieRunner {
    using Trie = souffle::Trie<Dim>;
    using Ctx = typename Trie::op_context;
    using Model = std::set<Tup<Dim>, ULess<Dim>>;
    Trie trie;
    Model model;
    struct Rec {
        Tup<Dim> t;
        bool ret;
    };
    std::vector<std::vector<Rec>> recs;

    template <unsigned L>
    void check_bounds_level(const Tup<Dim>& probe, Ctx& ctxt, bool use_ctx, const char* when) {
        auto range = use_ctx ? trie.template getBoundaries<L>(probe, ctxt) : trie.template getBoundaries<L>(probe);
        Model got;
        size_t n = 0;
        for (auto it = range.begin(); it != range.end(); ++it) {
            Tup<Dim> t;
            for (unsigned i = 0; i < Dim; i++) t[i] = (*it)[i];
            CHECK(got.insert(t).second, "bounds-dup", "%s: getBoundaries<%u>(%s) lists %s twice", when, L, tstr<Dim>(probe).c_str(), tstr<Dim>(t).c_str());
            if (++n > model.size() + 4) break;
        }
        Model want;
        for (auto& m : model) {
            bool match = true;
            for (unsigned i = 0; i < L; i++) match = match && m[i] == probe[i];
            if (match) want.insert(m);
        }
        CHECK(got == want, "bounds-content", "%s: getBoundaries<%u>(%s) yields %zu tuples, the model prefix filter %zu", when, L, tstr<Dim>(probe).c_str(),
                got.size(), want.size());
    }
    void check_bounds(unsigned level, const Tup<Dim>& probe, Ctx& ctxt, bool use_ctx, const char* when) {
        switch (level) {
            case 1: check_bounds_level<1>(probe, ctxt, use_ctx, when); break;
            case 2:
                if constexpr (Dim >= 2) check_bounds_level<2>(probe, ctxt, use_ctx, when);
                break;
            case 3:
                if constexpr (Dim >= 3) check_bounds_level<3>(probe, ctxt, use_ctx, when);
                break;
            case 4:
                if constexpr (Dim >= 4) check_bounds_level<4>(probe, ctxt, use_ctx, when);
                break;
            default: check_bounds_level<0>(probe, ctxt, use_ctx, when); break;
        }
    }

    void run_inserts(int task, const std::vector<Op>& ops) {
        Ctx ctxt;
        for (const Op& op : ops) {
            Tup<Dim> t = mk<Dim>(op);
            bool r = trie.insert(t, ctxt);
            {
                NoPreempt np;
                recs[task].push_back(Rec{t, r});
            }
            uint64_t h = 0;
            for (unsigned i = 0; i < Dim; i++) h = h * 1000003 + (uint32_t)t[i];
            sim::note(((uint64_t)task << 56) ^ (h << 1) ^ (uint64_t)r);
            OPDONE();
        }
    }
    void run_queries(int task, const std::vector<Op>& ops) {
        Ctx ctxt;
        for (const Op& op : ops) {
            Op o2 = op;
            Tup<Dim> t = mk<Dim>(o2);
            if (op.code == OP_CONTAINS) {
                bool c = trie.contains(t, ctxt);
                CHECK(c == (model.count(t) > 0), "concurrent-contains", "task %d: contains(%s)=%d in a read-only phase, model says %d", task,
                        tstr<Dim>(t).c_str(), (int)c, (int)model.count(t));
            } else {
                // op.code == OP_BOUNDS: prefix length encoded separately in the phase (uses 1 + a % Dim)
                unsigned lvl = 1 + (unsigned)(((uint32_t)t[0]) % Dim);
                check_bounds(lvl, t, ctxt, true, "read-only phase");
            }
            sim::note(((uint64_t)task << 56) ^ (uint64_t)op.code);
            OPDONE();
        }
    }

    void check_phase() {
        std::map<Tup<Dim>, std::pair<int, int>, ULess<Dim>> att;  // attempts, successes
        for (auto& t : recs)
            for (auto& r : t) {
                att[r.t].first++;
                if (r.ret) att[r.t].second++;
            }
        for (auto& kv : att) {
            if (model.count(kv.first))
                CHECK(kv.second.second == 0, "insert-dup-true", "insert of present tuple %s reported success %d time(s)", tstr<Dim>(kv.first).c_str(),
                        kv.second.second);
            else
                CHECK(kv.second.second == 1, "insert-success-count", "%d concurrent insertions of new tuple %s reported success %d time(s)", kv.second.first,
                        tstr<Dim>(kv.first).c_str(), kv.second.second);
        }
        for (auto& kv : att) model.insert(kv.first);
        for (auto& t : recs) t.clear();
    }

    void check_quiescent(Rng& pr, const std::vector<Tup<Dim>>& probes) {
        CHECK(trie.size() == model.size(), "size", "size()=%zu, model %zu", trie.size(), model.size());
        CHECK(trie.empty() == model.empty(), "empty", "empty()=%d, model size %zu", (int)trie.empty(), model.size());
        // iteration: each tuple once, in the trie's order
        {
            Model seen;
            size_t n = 0;
            bool first = true;
            Tup<Dim> prev{};
            for (auto it = trie.begin(); it != trie.end(); ++it, ++n) {
                Tup<Dim> t;
                for (unsigned i = 0; i < Dim; i++) t[i] = (*it)[i];
                CHECK(seen.insert(t).second, "iteration-dup", "iteration lists %s twice", tstr<Dim>(t).c_str());
                CHECK(model.count(t), "iteration-extra", "iteration lists %s which was never inserted", tstr<Dim>(t).c_str());
                if (!first) CHECK(ULess<Dim>()(prev, t), "iteration-order", "iteration not ascending: %s after %s", tstr<Dim>(t).c_str(), tstr<Dim>(prev).c_str());
                prev = t;
                first = false;
                if (n > model.size() + 4 || (g_res && !g_res->ok)) break;
            }
            CHECK(seen.size() == model.size(), "iteration-missing", "iteration lists %zu of %zu tuples", seen.size(), model.size());
        }
        if (g_res && !g_res->ok) return;
        Ctx ctxt;
        for (auto& p : probes) {
            bool use_ctx = pr.chance(1, 2);
            bool c = use_ctx ? trie.contains(p, ctxt) : trie.contains(p);
            CHECK(c == (model.count(p) > 0), "contains", "contains(%s)=%d, model %d", tstr<Dim>(p).c_str(), (int)c, (int)model.count(p));
            auto f = use_ctx ? trie.find(p, ctxt) : trie.find(p);
            CHECK((f != trie.end()) == (model.count(p) > 0), "find", "find(%s) wrong, model %d", tstr<Dim>(p).c_str(), (int)model.count(p));
            for (unsigned l = 0; l <= Dim; l++) check_bounds(l, p, ctxt, use_ctx, "quiescent");
            // (lower_bound/upper_bound are not part of the property's statement and are not checked: on the real code they
            //  compare elements as signed values while the stores are ordered by unsigned index)
            if (g_res && !g_res->ok) return;
        }
        for (unsigned chunks : {1u, 2u, 3u, 7u, 64u, 500u}) {
            auto parts = trie.partition(chunks);
            Model seen;
            size_t n = 0;
            for (auto& r : parts)
                for (auto it = r.begin(); it != r.end(); ++it) {
                    Tup<Dim> t;
                    for (unsigned i = 0; i < Dim; i++) t[i] = (*it)[i];
                    CHECK(seen.insert(t).second, "partition-dup", "partition(%u) lists %s twice", chunks, tstr<Dim>(t).c_str());
                    if (++n > model.size() + 4) break;
                }
            CHECK(seen == model, "partition-content", "partition(%u) covers %zu tuples, model %zu", chunks, seen.size(), model.size());
        }
    }

    void execute(const Workload& wl) {
        Rng prng((uint64_t)wl.param("probe_seed", 1));
        long nprobes = wl.param("probes", 30);
        for (const Phase& ph : wl.phases) {
            if (ph.kind == 1) {
                recs.assign(ph.tasks.size(), {});
                sim::parallel((int)ph.tasks.size(), [&](int t) { run_inserts(t, ph.tasks[t]); });
                if (g_res && !g_res->ok) return;
                check_phase();
            } else {
                sim::parallel((int)ph.tasks.size(), [&](int t) { run_queries(t, ph.tasks[t]); });
            }
            if (g_res && !g_res->ok) return;
            std::vector<Tup<Dim>> probes;
            for (auto& t : ph.tasks)
                for (auto& o : t)
                    if ((long)probes.size() < nprobes && prng.chance(1, 3)) {
                        probes.push_back(mk<Dim>(o));
                        Op n = o;
                        (Dim > 1 && prng.chance(1, 2) ? n.b : n.a) += prng.range(-1, 1);
                        probes.push_back(mk<Dim>(n));
                    }
            Op e;
            e.a = INT_MAX;
            e.b = -1;
            e.c = 0;
            e.d = INT_MIN;
            probes.push_back(mk<Dim>(e));
            e.a = 0;
            probes.push_back(mk<Dim>(e));
            check_quiescent(prng, probes);
            if (g_res && !g_res->ok) return;
        }
        COUNT((std::string("variant_trie") + std::to_string(Dim)).c_str());
        COUNT("final_size", model.size());
    }
};

// ---- direct harness of the building blocks
static void run_bitmap(const Workload& wl) {
    souffle::SparseBitMap<> bm;
    std::set<uint64_t> model;
    for (const Phase& ph : wl.phases) {
        if (ph.kind != 1) continue;
        std::vector<std::vector<std::pair<uint64_t, bool>>> recs(ph.tasks.size());
        sim::parallel((int)ph.tasks.size(), [&](int t) {
            souffle::SparseBitMap<>::op_context ctxt;
            for (const Op& op : ph.tasks[t]) {
                uint64_t i = (uint64_t)(int64_t)(RamDomain)op.a;  // sign-extended like the trie does
                bool r = bm.set(i, ctxt);
                {
                    NoPreempt np;
                    recs[t].emplace_back(i, r);
                }
                sim::note(((uint64_t)t << 56) ^ (i << 1) ^ (uint64_t)r);
                OPDONE();
            }
        });
        std::map<uint64_t, std::pair<int, int>> att;
        for (auto& t : recs)
            for (auto& r : t) {
                att[r.first].first++;
                att[r.first].second += r.second;
            }
        for (auto& kv : att) {
            if (model.count(kv.first))
                CHECK(kv.second.second == 0, "bitmap-set-dup-true", "set(%llu) of an already set bit reported true", (unsigned long long)kv.first);
            else
                CHECK(kv.second.second == 1, "bitmap-set-count", "%d concurrent set(%llu) calls reported true %d time(s)", kv.second.first,
                        (unsigned long long)kv.first, kv.second.second);
            model.insert(kv.first);
        }
        CHECK(bm.size() == model.size(), "bitmap-size", "size()=%zu, model %zu", bm.size(), model.size());
        for (auto v : model) CHECK(bm.test(v), "bitmap-test", "bit %llu lost", (unsigned long long)v);
        std::set<uint64_t> seen;
        uint64_t prev = 0;
        bool first = true;
        for (auto it = bm.begin(); it != bm.end(); ++it) {
            CHECK(seen.insert(*it).second, "bitmap-iter-dup", "iteration lists bit %llu twice", (unsigned long long)*it);
            if (!first) CHECK(prev < *it, "bitmap-iter-order", "iteration not ascending");
            prev = *it;
            first = false;
            if (seen.size() > model.size() + 4) break;
        }
        CHECK(seen == model, "bitmap-iter-content", "iteration lists %zu bits, model %zu", seen.size(), model.size());
        for (auto v : model) {
            CHECK(!bm.test(v + 1) == !model.count(v + 1), "bitmap-test-neighbour", "test(%llu) wrong", (unsigned long long)(v + 1));
        }
        if (g_res && !g_res->ok) return;
    }
    COUNT("variant_bitmap");
}

static void run_array(const Workload& wl) {
    // counters stored in a SparseArray<uint64_t>: concurrent getAtomic + fetch_add; sum must be exact
    souffle::SparseArray<uint64_t> arr;
    std::map<uint64_t, uint64_t> model;
    for (const Phase& ph : wl.phases) {
        if (ph.kind != 1) continue;
        sim::parallel((int)ph.tasks.size(), [&](int t) {
            souffle::SparseArray<uint64_t>::op_context ctxt;
            for (const Op& op : ph.tasks[t]) {
                uint64_t i = (uint64_t)(int64_t)(RamDomain)op.a;
                auto& cell = arr.getAtomic(i, ctxt);
                cell.fetch_add(1 + (uint64_t)(op.b & 3), std::memory_order_relaxed);
                sim::note(((uint64_t)t << 56) ^ i);
                OPDONE();
            }
        });
        for (auto& t : ph.tasks)
            for (auto& op : t) model[(uint64_t)(int64_t)(RamDomain)op.a] += 1 + (uint64_t)(op.b & 3);
        for (auto& kv : model) {
            uint64_t v = arr.lookup(kv.first);
            CHECK(v == kv.second, "array-value", "cell %llu holds %llu, model %llu", (unsigned long long)kv.first, (unsigned long long)v,
                    (unsigned long long)kv.second);
        }
        std::map<uint64_t, uint64_t> seen;
        for (auto it = arr.begin(); it != arr.end(); ++it) {
            CHECK(seen.emplace((*it).first, (*it).second).second, "array-iter-dup", "iteration lists cell %llu twice", (unsigned long long)(*it).first);
            if (seen.size() > model.size() + 4) break;
        }
        CHECK(seen == model, "array-iter-content", "iteration lists %zu non-default cells, model %zu", seen.size(), model.size());
        CHECK(arr.size() == model.size(), "array-size", "size()=%zu, model %zu", arr.size(), model.size());
        if (g_res && !g_res->ok) return;
    }
    COUNT("variant_array");
}

static long draw(Rng& r, int kind, long D) {
    switch (kind) {
        case 0: return (long)r.below(D);                     // dense: shared leaf bitmaps / nodes
        case 1: return (long)(int)r.next();                  // sparse 32-bit, positive and negative
        case 2: {                                            // extremes: sign extension, raiseLevel from several tasks at once
            static const long ext[] = {0, 1, 63, 64, 4095, 4096, INT_MAX, INT_MAX - 1, -1, -2, INT_MIN, INT_MIN + 1, 1 << 20, (1 << 24) + 3};
            return ext[r.below(sizeof ext / sizeof ext[0])];
        }
        default: return (long)(r.below(D) << r.below(20));   // powers: different tree levels
    }
}

Workload gen(uint64_t seed, bool thorough) {
    Rng r(seed);
    Workload w;
    int variant = (int)r.pick(std::vector<long>{VAR_T1, VAR_T2, VAR_T2, VAR_T3, VAR_T3, VAR_T4, VAR_BITMAP, VAR_ARRAY});
    w.params["variant"] = variant;
    w.params["probe_seed"] = (long)(r.next() & 0x7fffffff);
    w.params["probes"] = thorough ? 60 : 16;
    int T = (int)r.range(2, 8);
    if (r.chance(1, 3)) T = (int)r.range(2, 3);
    int nphases = (int)r.range(1, 3);
    for (int p = 0; p < nphases; p++) {
        int kind0 = (int)r.below(4);
        long D = r.pick(std::vector<long>{2, 4, 16, 64, 300});
        int n = (int)r.range(2, thorough ? 400 : 50);
        bool same_first = r.chance(1, 3);  // all tasks create the same sub-tries at once
        Phase ph;
        ph.kind = 1;
        for (int t = 0; t < T; t++) {
            std::vector<Op> ops;
            int nt = r.chance(1, 4) ? (int)r.range(1, n) : n;
            for (int i = 0; i < nt; i++) {
                Op o;
                o.code = OP_INSERT;
                o.a = same_first ? (long)(i % (D + 1)) * (kind0 == 3 ? 4097 : 1) : draw(r, r.chance(1, 5) ? 2 : kind0, D);
                o.b = draw(r, r.chance(1, 6) ? 2 : (int)r.below(2) * 0, D);
                o.c = draw(r, 0, D);
                o.d = draw(r, r.chance(1, 8) ? 2 : 0, D);
                ops.push_back(o);
            }
            ph.tasks.push_back(ops);
        }
        w.phases.push_back(ph);
        if (variant <= VAR_T4 && r.chance(1, 3)) {
            Phase q;
            q.kind = 2;
            for (int t = 0; t < T; t++) {
                std::vector<Op> ops;
                int nq = (int)r.range(2, thorough ? 100 : 20);
                for (int i = 0; i < nq; i++) {
                    Op o;
                    const auto& src = ph.tasks[r.below(ph.tasks.size())];
                    o = src[r.below(src.size())];
                    if (r.chance(1, 3)) o.b += r.range(-1, 1);
                    o.code = r.chance(1, 2) ? OP_CONTAINS : OP_BOUNDS;
                    ops.push_back(o);
                }
                q.tasks.push_back(ops);
            }
            w.phases.push_back(q);
        }
    }
    return w;
}

void configure(sim::RunCfg& cfg, const Workload& w) {
    cfg.step_budget = 400000000;
    cfg.pct_est_steps = 40 * std::max<size_t>(1, w.total_ops());
    sim::set_livelock_limit(2000000);
}

void execute(const Workload& w, Result&) {
    switch ((int)w.param("variant", VAR_T2)) {
        case VAR_T1: {
            TrieRunner<1> r;
            r.execute(w);
            break;
        }
        case VAR_T2: {
            TrieRunner<2> r;
            r.execute(w);
            break;
        }
        case VAR_T3: {
            TrieRunner<3> r;
            r.execute(w);
            break;
        }
        case VAR_T4: {
            TrieRunner<4> r;
            r.execute(w);
            break;
        }
        case VAR_BITMAP: run_bitmap(w); break;
        default: run_array(w); break;
    }
}

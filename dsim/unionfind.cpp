// C29 — the lock-free union-find is linearizable.
// System under simulation: the real souffle::DisjointSet (UnionFind.h) on the real PiggyList.
#include "common.h"

#include "souffle/datastructure/UnionFind.h"

#include <numeric>

const char* H_NAME = "unionfind";
const char* H_PROP = "C29";
unsigned harness_fault_mask() {
    // PiggyList growth takes a SpinLock whose try_lock is a compare_exchange_weak
    return 1u << sim::F_WEAK_CAS;
}

using namespace dsim;
using souffle::DisjointSet;

enum OpCode { OP_UNION = 1, OP_FIND, OP_SAME, OP_MAKE };

struct OpRec {
    int task, code;
    long a, b;
    long result;
    uint64_t inv, ret;
};

struct World {
    DisjointSet ds;
    size_t made = 0;  // nodes whose makeNode has returned
    std::vector<OpRec> hist;
    std::vector<std::pair<long, long>> base;  // unions of earlier (finished) phases
    uint64_t hook_calls = 0;
    bool tiny = false;
};
static World* W = nullptr;

// invariant after every schedule step: parent links reach a self-parent within `size` hops; parents are valid indices
static void check_forest(const char* when) {
    World& w = *W;
    size_t n = w.made;
    for (size_t i = 0; i < n; i++) {
        size_t x = i, hops = 0;
        for (;;) {
            souffle::block_t blk = w.ds.get(x).load(std::memory_order_relaxed);
            size_t p = (size_t)DisjointSet::b2p(blk);
            if (p >= w.ds.size()) {
                FAIL("bad-parent", "%s: node %zu has parent index %zu >= size %zu", when, x, p, w.ds.size());
                return;
            }
            if (p == x) break;
            x = p;
            if (++hops > w.ds.size() + 1) {
                FAIL("cycle", "%s: parent links from node %zu do not reach a root within %zu hops (cycle)", when, i, hops);
                if (getenv("UF_DEBUG")) {
                    for (size_t k = 0; k < w.ds.size(); k++) {
                        souffle::block_t b = w.ds.get(k).load(std::memory_order_relaxed);
                        fprintf(stderr, "  node %zu -> parent %zu rank %d\n", k, (size_t)DisjointSet::b2p(b), (int)DisjointSet::b2r(b));
                    }
                }
                return;
            }
        }
    }
}
static void step_hook(void*) {
    World& w = *W;
    w.hook_calls++;
    if (!w.tiny && (w.hook_calls & 7)) return;
    check_forest("during run");
}

static void run_script(int task, const std::vector<Op>& ops) {
    World& w = *W;
    std::vector<long> mine;  // nodes created by this task
    for (const Op& op : ops) {
        OpRec r{task, op.code, op.a, op.b, 0, 0, 0};
        auto resolve = [&](long v) -> long {
            // negative operands refer to nodes this task created itself (-1 = most recent)
            if (v >= 0) return v;
            size_t k = (size_t)(-v);
            if (mine.empty()) return 0;
            return mine[mine.size() - 1 - ((k - 1) % mine.size())];
        };
        r.a = resolve(op.a);
        r.b = resolve(op.b);
        r.inv = sim::stamp();
        switch (op.code) {
            case OP_UNION: w.ds.unionNodes((souffle::parent_t)r.a, (souffle::parent_t)r.b); break;
            case OP_FIND: r.result = (long)w.ds.findNode((souffle::parent_t)r.a); break;
            case OP_SAME: r.result = w.ds.sameSet((souffle::parent_t)r.a, (souffle::parent_t)r.b) ? 1 : 0; break;
            case OP_MAKE: {
                souffle::block_t blk = w.ds.makeNode();
                r.result = (long)DisjointSet::b2p(blk);
                mine.push_back(r.result);
                NoPreempt np;
                CHECK(DisjointSet::b2r(blk) == 0, "makenode-rank", "fresh node %ld has rank %d", r.result, (int)DisjointSet::b2r(blk));
                // ids are handed out densely; all ids below `made` are initialised
                if ((size_t)r.result + 1 > w.made) {
                    // only extend the checked prefix when every lower id has been returned too
                }
                break;
            }
        }
        r.ret = sim::stamp();
        {
            NoPreempt np;
            w.hist.push_back(r);
        }
        sim::note(((uint64_t)task << 40) ^ ((uint64_t)op.code << 32) ^ (uint64_t)r.result);
        OPDONE();
    }
}

// ---- sequential model
struct DSU {
    std::vector<int> p;
    explicit DSU(size_t n) : p(n) { std::iota(p.begin(), p.end(), 0); }
    int find(int x) {
        while (p[x] != x) x = p[x] = p[p[x]];
        return x;
    }
    void unite(int a, int b) { p[find(a)] = find(b); }
    bool same(int a, int b) { return find(a) == find(b); }
};

// Wing–Gong search: is there a linearization of `h` (all ops complete) legal for a sequential union-find?
struct WG {
    const std::vector<OpRec>& h;
    size_t n;
    std::set<std::pair<uint32_t, std::vector<int>>> dead;
    uint64_t nodes = 0;
    WG(const std::vector<OpRec>& h, size_t n) : h(h), n(n) {}
    static std::vector<int> canon(DSU& d) {
        std::vector<int> c(d.p.size());
        for (size_t i = 0; i < c.size(); i++) c[i] = d.find((int)i);
        // canonical labels: smallest member
        std::vector<int> mn(c.size(), INT32_MAX);
        for (size_t i = 0; i < c.size(); i++) mn[c[i]] = std::min(mn[c[i]], (int)i);
        for (size_t i = 0; i < c.size(); i++) c[i] = mn[c[i]];
        return c;
    }
    bool dfs(uint32_t done, DSU d) {
        if (done == (1u << h.size()) - 1) return true;
        nodes++;
        auto key = std::make_pair(done, canon(d));
        if (dead.count(key)) return false;
        for (size_t i = 0; i < h.size(); i++) {
            if (done & (1u << i)) continue;
            // i may be linearized next only if no pending op returned before i was invoked
            bool minimal = true;
            for (size_t j = 0; j < h.size(); j++)
                if (j != i && !(done & (1u << j)) && h[j].ret < h[i].inv) minimal = false;
            if (!minimal) continue;
            const OpRec& o = h[i];
            DSU d2 = d;
            bool legal = true;
            switch (o.code) {
                case OP_UNION: d2.unite((int)o.a, (int)o.b); break;
                case OP_SAME: legal = (d2.same((int)o.a, (int)o.b) ? 1 : 0) == o.result; break;
                case OP_FIND: legal = o.result >= 0 && (size_t)o.result < n && d2.same((int)o.a, (int)o.result); break;
                default: break;
            }
            if (legal && dfs(done | (1u << i), d2)) return true;
        }
        dead.insert(key);
        return false;
    }
};

static void check_history(size_t nnodes, bool tiny) {
    World& w = *W;
    const auto& h = w.hist;
    // final partition == closure of requested unions
    DSU fin(nnodes);
    for (auto& pr : w.base) fin.unite((int)pr.first, (int)pr.second);
    for (auto& o : h)
        if (o.code == OP_UNION) fin.unite((int)o.a, (int)o.b);
    for (size_t i = 0; i < nnodes; i++)
        for (size_t j = i + 1; j < nnodes; j++) {
            bool got = w.ds.sameSet(i, j);
            CHECK(got == fin.same((int)i, (int)j), "final-partition", "at quiescence sameSet(%zu,%zu)=%d but the closure of the requested unions says %d", i, j,
                    (int)got, (int)fin.same((int)i, (int)j));
            if (nnodes > 24 && j > i + 6) break;  // large regime: a band of pairs, plus the find check below
        }
    for (size_t i = 0; i < nnodes; i++) {
        size_t r = w.ds.findNode(i);
        CHECK(r < nnodes && fin.same((int)i, (int)r), "final-find", "at quiescence findNode(%zu)=%zu is outside the node's class", i, r);
        CHECK(w.ds.findNode(r) == r, "final-root", "findNode(%zu)=%zu is not a root", i, r);
    }
    check_forest("at quiescence");
    if (tiny && h.size() <= 12) {
        std::vector<OpRec> hh;
        for (auto& o : h)
            if (o.code != OP_MAKE) hh.push_back(o);
        WG wg(hh, nnodes);
        DSU start(nnodes);
        for (auto& pr : w.base) start.unite((int)pr.first, (int)pr.second);
        bool lin = wg.dfs(0, start);
        if (g_res) g_res->checks++;
        if (!lin) {
            std::string desc;
            char buf[96];
            for (auto& o : hh) {
                snprintf(buf, sizeof buf, " t%d:%s(%ld,%ld)=%ld@[%llu,%llu]", o.task, o.code == OP_UNION ? "union" : o.code == OP_FIND ? "find" : "same", o.a, o.b,
                        o.result, (unsigned long long)o.inv, (unsigned long long)o.ret);
                desc += buf;
            }
            FAIL("not-linearizable", "no legal sequential order exists for the history:%s", desc.c_str());
        }
        COUNT("wg_histories");
        COUNT("wg_search_nodes", wg.nodes);
    } else {
        // monotone interval rule (exact per operation for a monotone structure)
        size_t checked = 0;
        for (auto& q : h) {
            if (q.code != OP_SAME && q.code != OP_FIND) continue;
            if (++checked > 400) break;
            DSU before(nnodes), upto(nnodes);
            for (auto& pr : w.base) {
                before.unite((int)pr.first, (int)pr.second);
                upto.unite((int)pr.first, (int)pr.second);
            }
            for (auto& u : h) {
                if (u.code != OP_UNION) continue;
                if (u.ret < q.inv) before.unite((int)u.a, (int)u.b);  // completed before q was invoked
                if (u.inv < q.ret) upto.unite((int)u.a, (int)u.b);    // invoked before q returned
            }
            if (q.code == OP_SAME) {
                if (q.result)
                    CHECK(upto.same((int)q.a, (int)q.b), "same-true-unsound", "t%d sameSet(%ld,%ld)=true but no union invoked before its return connects them",
                            q.task, q.a, q.b);
                else
                    CHECK(!before.same((int)q.a, (int)q.b), "same-false-unsound",
                            "t%d sameSet(%ld,%ld)=false although unions completed before its invocation connect them", q.task, q.a, q.b);
            } else {
                CHECK(q.result >= 0 && (size_t)q.result < nnodes && upto.same((int)q.a, (int)q.result), "find-unsound",
                        "t%d findNode(%ld)=%ld is not connected to the argument by any union invoked before the return", q.task, q.a, q.result);
            }
        }
        COUNT("interval_checked", checked);
    }
}

Workload gen(uint64_t seed, bool thorough) {
    Rng r(seed);
    Workload w;
    bool tiny = r.chance(1, 2);
    int T, nodes, maxops;
    if (tiny) {
        T = (int)r.range(2, 3);
        nodes = (int)r.range(2, 4);
        maxops = 3;
    } else {
        T = (int)r.range(2, 8);
        nodes = (int)r.range(4, thorough ? 128 : 48);
        maxops = thorough ? 200 : 60;
    }
    w.params["nodes"] = nodes;
    w.params["tiny"] = tiny;
    bool with_make = !tiny && r.chance(1, 4);
    w.params["concurrent_make"] = with_make;
    int profile = (int)r.below(3);  // 0 mixed, 1 union-heavy chains, 2 query-heavy
    Phase ph;
    ph.kind = 1;
    for (int t = 0; t < T; t++) {
        std::vector<Op> ops;
        int n = (int)r.range(1, maxops);
        for (int i = 0; i < n; i++) {
            Op o;
            int x = (int)r.below(100);
            if (with_make && x < 10) {
                o.code = OP_MAKE;
            } else if (profile == 1) {
                o.code = x < 70 ? OP_UNION : x < 85 ? OP_FIND : OP_SAME;
            } else if (profile == 2) {
                o.code = x < 25 ? OP_UNION : x < 55 ? OP_FIND : OP_SAME;
            } else {
                o.code = x < 45 ? OP_UNION : x < 65 ? OP_FIND : OP_SAME;
            }
            o.a = (long)r.below(nodes);
            o.b = (long)r.below(nodes);
            if (profile == 1 && r.chance(1, 2)) o.b = (o.a + 1) % nodes;  // chains: long parent paths, heavy path halving
            if (with_make && r.chance(1, 6)) o.a = -(long)r.range(1, 3);
            ops.push_back(o);
        }
        ph.tasks.push_back(ops);
    }
    w.phases.push_back(ph);
    if (!tiny && r.chance(1, 2)) {
        // a second concurrent phase on the already merged forest
        Phase p2;
        p2.kind = 1;
        for (int t = 0; t < T; t++) {
            std::vector<Op> ops;
            int n = (int)r.range(1, maxops / 2 + 1);
            for (int i = 0; i < n; i++) {
                Op o;
                int x = (int)r.below(100);
                o.code = x < 40 ? OP_UNION : x < 60 ? OP_FIND : OP_SAME;
                o.a = (long)r.below(nodes);
                o.b = (long)r.below(nodes);
                ops.push_back(o);
            }
            p2.tasks.push_back(ops);
        }
        w.phases.push_back(p2);
    }
    return w;
}

void configure(sim::RunCfg& cfg, const Workload& w) {
    cfg.step_budget = 20000000;
    cfg.pct_est_steps = 30 * std::max<size_t>(1, w.total_ops());
    sim::set_livelock_limit(300000);
}

void execute(const Workload& wl, Result& res) {
    World world;
    W = &world;
    size_t nodes = (size_t)wl.param("nodes", 4);
    world.tiny = wl.param("tiny", 0) != 0;
    for (size_t i = 0; i < nodes; i++) {
        souffle::block_t b = world.ds.makeNode();
        CHECK(DisjointSet::b2p(b) == i, "makenode-id", "sequential makeNode #%zu returned id %zu", i, (size_t)DisjointSet::b2p(b));
    }
    world.made = nodes;
    sim::set_step_hook(step_hook, nullptr);
    for (const Phase& ph : wl.phases) {
        world.hist.clear();
        size_t before = world.ds.size();
        sim::parallel((int)ph.tasks.size(), [&](int t) { run_script(t, ph.tasks[t]); });
        // concurrent makeNode: ids distinct and dense
        std::set<long> ids;
        size_t makes = 0;
        for (auto& o : world.hist)
            if (o.code == OP_MAKE) {
                makes++;
                CHECK(ids.insert(o.result).second, "makenode-dup", "makeNode returned id %ld twice", o.result);
                CHECK((size_t)o.result >= before && (size_t)o.result < before + ph.tasks.size() * 1000, "makenode-range", "makeNode returned id %ld", o.result);
            }
        CHECK(world.ds.size() == before + makes, "size", "size()=%zu after %zu+%zu makeNode calls", world.ds.size(), before, makes);
        world.made = world.ds.size();
        if (!res.ok) break;
        check_history(world.made, world.tiny);
        if (!res.ok) break;
        for (auto& o : world.hist)
            if (o.code == OP_UNION) world.base.emplace_back(o.a, o.b);
    }
    sim::set_step_hook(nullptr, nullptr);
    W = nullptr;
}

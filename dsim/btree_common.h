// Shared runner for the B-tree harnesses: C25 (BTree.h) and C26 (BTreeDelete.h).
// A variant V supplies: Tree, Key, mk(Op) -> Key, less(Key,Key), multi (multiset), prov (weak comparator + updater),
// has_erase, name().
#pragma once
#include "common.h"

#include <climits>
#include <functional>
#include <map>
#include <set>

namespace bt {
using namespace dsim;

enum OpCode { OP_INSERT = 1, OP_CONTAINS, OP_FIND, OP_LOWER, OP_UPPER, OP_ERASE, OP_ERASE_IT };
// phase kinds: 1 = concurrent inserts, 2 = concurrent read-only queries, 0 = sequential mixed history (op by op vs. model)

template <typename V>
struct Runner {
    using Tree = typename V::Tree;
    using Key = typename V::Key;
    using Hints = typename Tree::operation_hints;
    struct KLess {
        bool operator()(const Key& a, const Key& b) const { return V::less(a, b); }
    };
    using Model = std::multiset<Key, KLess>;

    Tree tree;
    Model model;  // for prov variants: one entry per weak key carrying the minimal payload
    struct InsRec {
        Key k;
        bool ret;
    };
    std::vector<std::vector<InsRec>> ins;  // per task, current phase

    static bool keq(const Key& a, const Key& b) { return !V::less(a, b) && !V::less(b, a); }

    // ---- model updates
    void model_insert(const Key& k) {
        if (V::multi) {
            model.insert(k);
        } else if (V::prov) {
            // weak-equal entry?
            auto it = model.begin();
            for (; it != model.end(); ++it)
                if (V::weak_eq(*it, k)) break;
            if (it == model.end())
                model.insert(k);
            else if (V::payload_less(k, *it)) {
                model.erase(it);
                model.insert(k);
            }
        } else if (!model.count(k)) {
            model.insert(k);
        }
    }

    // ---- concurrent insert phase
    void run_inserts(int task, const std::vector<Op>& ops) {
        Hints hints;
        for (const Op& op : ops) {
            Key k = V::mk(op);
            bool r;
            if (op.d & 1) {
                r = tree.insert(k);  // fresh hints per operation
            } else {
                r = tree.insert(k, hints);
            }
            {
                NoPreempt np;
                ins[task].push_back(InsRec{k, r});
            }
            sim::note(((uint64_t)task << 40) ^ ((uint64_t)op.a << 1) ^ (uint64_t)r);
            OPDONE();
        }
    }

    void check_insert_phase() {
        // success exactly once per distinct new key (sets); always for multisets
        std::map<Key, int, KLess> succ, attempts;
        for (auto& t : ins)
            for (auto& r : t) {
                attempts[r.k]++;
                if (r.ret) succ[r.k]++;
            }
        if (!V::prov) {
            for (auto& kv : attempts) {
                bool was_present = model.count(kv.first) > 0;
                int s = succ.count(kv.first) ? succ[kv.first] : 0;
                if (V::multi) {
                    CHECK(s == kv.second, "multiset-insert-false", "%d of %d insertions of key %s into a multiset reported failure", kv.second - s, kv.second,
                            V::str(kv.first).c_str());
                } else if (was_present) {
                    CHECK(s == 0, "insert-dup-true", "insert of already present key %s reported success %d time(s)", V::str(kv.first).c_str(), s);
                } else {
                    CHECK(s == 1, "insert-success-count", "%d concurrent insertions of new key %s reported success %d time(s) (expected exactly once)",
                            kv.second, V::str(kv.first).c_str(), s);
                }
            }
        }
        for (auto& t : ins)
            for (auto& r : t) model_insert(r.k);
        for (auto& t : ins) t.clear();
    }

    // ---- quiescent oracle: everything observable agrees with the model
    void check_quiescent(Rng& probe_rng, const std::vector<Key>& probes) {
        CHECK(tree.size() == model.size(), "size", "size()=%zu, model has %zu", (size_t)tree.size(), model.size());
        CHECK(tree.empty() == model.empty(), "empty", "empty()=%d, model size %zu", (int)tree.empty(), model.size());
        // iteration: ascending and equal to the model
        {
            auto mit = model.begin();
            size_t n = 0;
            bool first = true;
            Key prev{};
            for (auto it = tree.begin(); it != tree.end(); ++it, ++n) {
                const Key& k = *it;
                if (!first) {
                    if (V::multi)
                        CHECK(!V::less(k, prev), "iteration-order", "iteration not non-descending at position %zu (%s after %s)", n, V::str(k).c_str(),
                                V::str(prev).c_str());
                    else
                        CHECK(V::less(prev, k), "iteration-order", "iteration not strictly ascending at position %zu (%s after %s)", n, V::str(k).c_str(),
                                V::str(prev).c_str());
                }
                if (mit == model.end()) {
                    FAIL("iteration-extra", "iteration yields %s beyond the %zu model elements", V::str(k).c_str(), model.size());
                    return;
                }
                CHECK(V::full_eq(*mit, k), "iteration-content", "iteration position %zu holds %s, model holds %s", n, V::str(k).c_str(), V::str(*mit).c_str());
                if (g_res && !g_res->ok) return;
                ++mit;
                prev = k;
                first = false;
                if (n > model.size() + 4) break;
            }
            CHECK(mit == model.end(), "iteration-missing", "iteration stopped after %zu of %zu elements", n, model.size());
        }
        if (g_res && !g_res->ok) return;
        CHECK(tree.check(), "structure-check", "the tree's own check() reports an inconsistent structure");
        // point and range queries on present, absent and extreme probes
        Hints hints;
        for (const Key& k : probes) {
            bool use_hints = probe_rng.chance(1, 2);
            size_t cnt = V::prov ? prov_count(k) : model.count(k);
            bool c = use_hints ? tree.contains(k, hints) : tree.contains(k);
            CHECK(c == (cnt > 0), "contains", "contains(%s)=%d, model count %zu", V::str(k).c_str(), (int)c, cnt);
            auto f = use_hints ? tree.find(k, hints) : tree.find(k);
            CHECK((f != tree.end()) == (cnt > 0), "find", "find(%s) %s, model count %zu", V::str(k).c_str(), f == tree.end() ? "returned end" : "found an element",
                    cnt);
            if (f != tree.end()) CHECK(keq(*f, k), "find-wrong", "find(%s) points at %s", V::str(k).c_str(), V::str(*f).c_str());
            auto lb = use_hints ? tree.lower_bound(k, hints) : tree.lower_bound(k);
            auto mlb = model.lower_bound(k);
            CHECK((lb == tree.end()) == (mlb == model.end()), "lower_bound", "lower_bound(%s): tree %s, model %s", V::str(k).c_str(),
                    lb == tree.end() ? "end" : V::str(*lb).c_str(), mlb == model.end() ? "end" : V::str(*mlb).c_str());
            if (lb != tree.end() && mlb != model.end())
                CHECK(V::full_eq(*lb, *mlb), "lower_bound", "lower_bound(%s)=%s, model %s", V::str(k).c_str(), V::str(*lb).c_str(), V::str(*mlb).c_str());
            auto ub = use_hints ? tree.upper_bound(k, hints) : tree.upper_bound(k);
            auto mub = model.upper_bound(k);
            CHECK((ub == tree.end()) == (mub == model.end()), "upper_bound", "upper_bound(%s): tree %s, model %s", V::str(k).c_str(),
                    ub == tree.end() ? "end" : V::str(*ub).c_str(), mub == model.end() ? "end" : V::str(*mub).c_str());
            if (ub != tree.end() && mub != model.end())
                CHECK(V::full_eq(*ub, *mub), "upper_bound", "upper_bound(%s)=%s, model %s", V::str(k).c_str(), V::str(*ub).c_str(), V::str(*mub).c_str());
            if (g_res && !g_res->ok) return;
        }
        // chunk partitioning: chunks are ordered, disjoint and cover every element exactly once
        for (size_t want : {(size_t)1, (size_t)2, (size_t)3, (size_t)5, (size_t)16, (size_t)400}) {
            auto chunks = tree.getChunks(want);
            auto mit = model.begin();
            size_t n = 0;
            for (auto& ch : chunks) {
                for (auto it = ch.begin(); it != ch.end(); ++it) {
                    if (mit == model.end()) {
                        FAIL("chunks-extra", "getChunks(%zu) lists more than the %zu elements", want, model.size());
                        return;
                    }
                    CHECK(V::full_eq(*it, *mit), "chunks-content", "getChunks(%zu): element %zu is %s, model %s", want, n, V::str(*it).c_str(),
                            V::str(*mit).c_str());
                    if (g_res && !g_res->ok) return;
                    ++mit;
                    ++n;
                    if (n > model.size() + 4) break;
                }
            }
            CHECK(mit == model.end(), "chunks-missing", "getChunks(%zu) covers %zu of %zu elements", want, n, model.size());
            if (model.empty()) CHECK(chunks.empty(), "chunks-empty", "getChunks on an empty tree returned %zu chunks", chunks.size());
        }
    }
    size_t prov_count(const Key& k) {
        for (auto& m : model)
            if (V::full_eq(m, k)) return 1;
        return 0;
    }

    // ---- concurrent read-only phase (model is frozen)
    void run_queries(int task, const std::vector<Op>& ops) {
        Hints hints;
        for (const Op& op : ops) {
            Key k = V::mk(op);
            size_t cnt = V::prov ? prov_count(k) : model.count(k);
            switch (op.code) {
                case OP_CONTAINS: {
                    bool c = tree.contains(k, hints);
                    CHECK(c == (cnt > 0), "concurrent-contains", "task %d: contains(%s)=%d during a read-only phase, model count %zu", task, V::str(k).c_str(),
                            (int)c, cnt);
                    break;
                }
                case OP_FIND: {
                    auto f = tree.find(k, hints);
                    CHECK((f != tree.end()) == (cnt > 0), "concurrent-find", "task %d: find(%s) wrong during a read-only phase", task, V::str(k).c_str());
                    break;
                }
                case OP_LOWER: {
                    auto lb = tree.lower_bound(k, hints);
                    auto mlb = model.lower_bound(k);
                    bool ok = (lb == tree.end()) == (mlb == model.end()) && (lb == tree.end() || V::full_eq(*lb, *mlb));
                    CHECK(ok, "concurrent-lower_bound", "task %d: lower_bound(%s) wrong during a read-only phase", task, V::str(k).c_str());
                    break;
                }
                case OP_UPPER: {
                    auto ub = tree.upper_bound(k, hints);
                    auto mub = model.upper_bound(k);
                    bool ok = (ub == tree.end()) == (mub == model.end()) && (ub == tree.end() || V::full_eq(*ub, *mub));
                    CHECK(ok, "concurrent-upper_bound", "task %d: upper_bound(%s) wrong during a read-only phase", task, V::str(k).c_str());
                    break;
                }
                default: break;
            }
            sim::note(((uint64_t)task << 40) ^ (uint64_t)op.code);
            OPDONE();
        }
    }

    // ---- sequential mixed history, op by op against the model
    void run_sequential(const std::vector<Op>& ops) {
        Hints hints;
        for (const Op& op : ops) {
            Key k = V::mk(op);
            switch (op.code) {
                case OP_INSERT: {
                    bool present = V::prov ? false : model.count(k) > 0;
                    bool r = (op.d & 1) ? tree.insert(k) : tree.insert(k, hints);
                    if (!V::prov) CHECK(r == (V::multi || !present), "seq-insert-ret", "insert(%s) returned %d, key %s present before", V::str(k).c_str(), (int)r,
                            present ? "was" : "was not");
                    model_insert(k);
                    break;
                }
                case OP_CONTAINS: {
                    size_t cnt = V::prov ? prov_count(k) : model.count(k);
                    bool c = tree.contains(k, hints);
                    CHECK(c == (cnt > 0), "seq-contains", "contains(%s)=%d, model count %zu", V::str(k).c_str(), (int)c, cnt);
                    break;
                }
                case OP_FIND: {
                    size_t cnt = V::prov ? prov_count(k) : model.count(k);
                    auto f = tree.find(k, hints);
                    CHECK((f != tree.end()) == (cnt > 0), "seq-find", "find(%s) wrong, model count %zu", V::str(k).c_str(), cnt);
                    break;
                }
                case OP_LOWER: {
                    auto lb = tree.lower_bound(k, hints);
                    auto mlb = model.lower_bound(k);
                    bool ok = (lb == tree.end()) == (mlb == model.end()) && (lb == tree.end() || V::full_eq(*lb, *mlb));
                    CHECK(ok, "seq-lower_bound", "lower_bound(%s) disagrees with the model", V::str(k).c_str());
                    break;
                }
                case OP_UPPER: {
                    auto ub = tree.upper_bound(k, hints);
                    auto mub = model.upper_bound(k);
                    bool ok = (ub == tree.end()) == (mub == model.end()) && (ub == tree.end() || V::full_eq(*ub, *mub));
                    CHECK(ok, "seq-upper_bound", "upper_bound(%s) disagrees with the model", V::str(k).c_str());
                    break;
                }
                case OP_ERASE:
                case OP_ERASE_IT:
                    if constexpr (V::has_erase) {
                        size_t cnt = model.count(k);
                        if (op.code == OP_ERASE) {
                            size_t r = tree.erase(k);
                            CHECK(r == cnt, "erase-count", "erase(%s) returned %zu, model held %zu", V::str(k).c_str(), r, cnt);
                            model.erase(k);
                        } else {
                            auto it = tree.find(k);
                            CHECK((it != tree.end()) == (cnt > 0), "seq-find", "find(%s) before erase(iterator) wrong", V::str(k).c_str());
                            if (it != tree.end()) {
                                // successor expected after erasing exactly one occurrence
                                auto mit = model.find(k);
                                // the tree's find may return any of several equal keys of a multiset: compare by successor of the erased position
                                model.erase(mit);
                                tree.erase(it);
                                if (!V::multi) {
                                    auto msucc = model.upper_bound(k);
                                    bool ok = (it == tree.end()) == (msucc == model.end()) && (it == tree.end() || V::full_eq(*it, *msucc));
                                    CHECK(ok, "erase-iterator-next", "after erase(iterator) of %s the iterator does not reference the successor", V::str(k).c_str());
                                }
                            }
                        }
                        COUNT("erases");
                        // documented contract of btree_operation_hints: "resets all hints (to be triggered e.g. when deleting nodes)"
                        hints.clear();
                    }
                    break;
            }
            // cheap per-op invariants
            CHECK(tree.size() == model.size(), "seq-size", "after op %d on %s: size()=%zu, model %zu", op.code, V::str(k).c_str(), (size_t)tree.size(),
                    model.size());
            if (op.d & 2) CHECK(tree.check(), "structure-check", "check() fails after op %d on %s", op.code, V::str(k).c_str());
            OPDONE();
            if (g_res && !g_res->ok) return;
        }
    }

    // In a build without OpenMP (-fno-openmp: IS_SEQUENTIAL, the locks are no-ops) the "concurrent" phases are executed
    // task after task by the main thread: the non-parallel #else branch of insert meets the same model.
    template <typename F>
    static void run_tasks(int n, F&& f) {
#ifdef _OPENMP
        sim::parallel(n, f);
#else
        for (int t = 0; t < n; t++) f(t);
#endif
    }

    void execute(const Workload& wl) {
        Rng prng((uint64_t)wl.param("probe_seed", 1));
        std::vector<Key> probes;
        long nprobes = wl.param("probes", 40);
        for (const Phase& ph : wl.phases) {
            if (ph.kind == 1) {
                ins.assign(ph.tasks.size(), {});
                run_tasks((int)ph.tasks.size(), [&](int t) { run_inserts(t, ph.tasks[t]); });
                if (g_res && !g_res->ok) return;
                check_insert_phase();
            } else if (ph.kind == 2) {
                run_tasks((int)ph.tasks.size(), [&](int t) { run_queries(t, ph.tasks[t]); });
            } else {
                for (auto& t : ph.tasks) run_sequential(t);
            }
            if (g_res && !g_res->ok) return;
            // probes: keys used so far (present), neighbours, absent and extreme values
            probes.clear();
            for (auto& t : ph.tasks)
                for (auto& o : t)
                    if ((long)probes.size() < nprobes && prng.chance(1, 3)) {
                        probes.push_back(V::mk(o));
                        Op n = o;
                        n.a += prng.range(-2, 2);
                        probes.push_back(V::mk(n));
                    }
            for (long e : {(long)INT_MIN, (long)INT_MAX, 0L, -1L, 1L}) {
                Op o;
                o.a = e;
                probes.push_back(V::mk(o));
            }
            check_quiescent(prng, probes);
            if (g_res && !g_res->ok) return;
        }
        COUNT((std::string("variant_") + V::name()).c_str());
        COUNT("final_size", model.size());
    }
};

}  // namespace bt

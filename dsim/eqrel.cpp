// C28 — equivalence-relation storage is the closure of inserted pairs
// (EquivalenceRelation.h on SparseDisjointSet, LambdaBTree, PiggyList, std::shared_mutex).
#include "souffle/utility/StreamUtil.h"
#include "common.h"

#include "souffle/RamTypes.h"
#include "souffle/SouffleInterface.h"
#include "souffle/datastructure/EquivalenceRelation.h"

#include <climits>

const char* H_NAME = "eqrel";
const char* H_PROP = "C28";
unsigned harness_fault_mask() {
    // PiggyList growth and the sparse->dense map take SpinLocks (compare_exchange_weak)
    return 1u << sim::F_WEAK_CAS;
}

using namespace dsim;
using souffle::RamDomain;
using T2 = souffle::Tuple<RamDomain, 2>;
using Rel = souffle::EquivalenceRelation<T2>;

enum OpCode {
    OP_INSERT = 1,    // a,b into relation c (0 = A, 1 = B)
    OP_INSERTALL,     // A.insertAll(B) if c == 0 else B.insertAll(A)
    OP_EXTEND,        // A.extendAndInsert(B) if c == 0 else B.extendAndInsert(A)
    OP_CONTAINS,      // read-only phases
    OP_BOUNDS1,
    OP_BOUNDS2,
    OP_SIZE,
    OP_ITERATE,
};

// ---- reference model: element set + union-find over values
struct Model {
    std::map<long, long> parent;  // element -> parent
    long find(long x) {
        auto it = parent.find(x);
        if (it == parent.end()) return x;
        long r = x;
        while (parent[r] != r) r = parent[r];
        while (parent[x] != r) {
            long n = parent[x];
            parent[x] = r;
            x = n;
        }
        return r;
    }
    bool has(long x) const { return parent.count(x) > 0; }
    void add(long x) {
        if (!parent.count(x)) parent[x] = x;
    }
    void unite(long a, long b) {
        add(a);
        add(b);
        long ra = find(a), rb = find(b);
        if (ra != rb) parent[ra] = rb;
    }
    bool related(long a, long b) { return has(a) && has(b) && find(a) == find(b); }
    std::map<long, std::vector<long>> classes() {
        std::map<long, std::vector<long>> c;
        for (auto& kv : parent) c[find(kv.first)].push_back(kv.first);
        return c;
    }
    size_t size() {
        size_t s = 0;
        for (auto& kv : classes()) s += kv.second.size() * kv.second.size();
        return s;
    }
    std::set<std::pair<long, long>> pairs() {
        std::set<std::pair<long, long>> p;
        for (auto& kv : classes())
            for (long a : kv.second)
                for (long b : kv.second) p.emplace(a, b);
        return p;
    }
};

struct World {
    Rel rel[2];
    Model model[2];
};
static World* W = nullptr;

static T2 tup(long a, long b) {
    T2 t;
    t[0] = (RamDomain)a;
    t[1] = (RamDomain)b;
    return t;
}

template <typename Range>
static std::vector<std::pair<long, long>> collect(const Range& r, size_t limit) {
    std::vector<std::pair<long, long>> v;
    for (auto it = r.begin(); it != r.end(); ++it) {
        v.emplace_back((long)(*it)[0], (long)(*it)[1]);
        if (v.size() > limit) break;
    }
    return v;
}

static void expect_pairs(const char* cls, const char* what, long a, long b, const std::vector<std::pair<long, long>>& got,
        const std::set<std::pair<long, long>>& want) {
    std::set<std::pair<long, long>> g(got.begin(), got.end());
    CHECK(g.size() == got.size(), cls, "%s(%ld,%ld) lists a pair more than once (%zu listed, %zu distinct)", what, a, b, got.size(), g.size());
    CHECK(g == want, cls, "%s(%ld,%ld) lists %zu pairs, the closure model has %zu", what, a, b, g.size(), want.size());
}

static void check_relation(int which, const std::vector<long>& probes, const char* when) {
    Rel& r = W->rel[which];
    Model& m = W->model[which];
    size_t msize = m.size();
    size_t limit = msize + 8;
    CHECK(r.size() == msize, "size", "%s: relation %d size()=%zu, sum of squared class sizes is %zu", when, which, r.size(), msize);
    CHECK(r.empty() == (msize == 0), "empty", "%s: relation %d empty()=%d with %zu pairs", when, which, (int)r.empty(), msize);
    auto all = m.pairs();
    {
        auto got = collect(souffle::make_range(r.begin(), r.end()), limit);
        expect_pairs("iteration", "full iteration", 0, 0, got, all);
    }
    if (g_res && !g_res->ok) return;
    {
        // lower_bound with the interpreter's sentinel convention: (MIN, MIN) = everything
        auto it = r.lower_bound(tup(souffle::MIN_RAM_SIGNED, souffle::MIN_RAM_SIGNED));
        auto got = collect(souffle::make_range(it, r.end()), limit);
        expect_pairs("lower_bound-all", "lower_bound(MIN,MIN)", 0, 0, got, all);
    }
    for (long a : probes) {
        std::set<std::pair<long, long>> want1;
        for (auto& p : all)
            if (p.first == a) want1.insert(p);
        auto got1 = collect(r.getBoundaries<1>(tup(a, 0)), limit);
        expect_pairs("bounds1", "getBoundaries<1>", a, 0, got1, want1);
        {
            auto it = r.lower_bound(tup(a, souffle::MIN_RAM_SIGNED));
            auto got = collect(souffle::make_range(it, r.end()), limit);
            expect_pairs("lower_bound-anterior", "lower_bound(a,MIN)", a, 0, got, want1);
        }
        for (long b : probes) {
            bool rel = m.related(a, b);
            bool c = r.contains((RamDomain)a, (RamDomain)b);
            CHECK(c == rel, "contains", "%s: relation %d contains(%ld,%ld)=%d, closure model says %d", when, which, a, b, (int)c, (int)rel);
            std::set<std::pair<long, long>> want2;
            if (rel) want2.emplace(a, b);
            auto got2 = collect(r.getBoundaries<2>(tup(a, b)), limit);
            expect_pairs("bounds2", "getBoundaries<2>", a, b, got2, want2);
            auto it = r.lower_bound(tup(a, b));
            auto got3 = collect(souffle::make_range(it, r.end()), limit);
            expect_pairs("lower_bound-pair", "lower_bound(a,b)", a, b, got3, want2);
            if (g_res && !g_res->ok) return;
        }
        if (m.has(a)) {
            // closure(rep): all pairs of a's class
            std::set<std::pair<long, long>> wantc;
            for (auto& p : all)
                if (m.related(p.first, a)) wantc.insert(p);
            auto gotc = collect(souffle::make_range(r.closure((RamDomain)a), r.end()), limit);
            expect_pairs("closure", "closure", a, 0, gotc, wantc);
        }
        if (g_res && !g_res->ok) return;
    }
    for (size_t chunks : {(size_t)1, (size_t)2, (size_t)4, (size_t)400}) {
        auto parts = r.partition(chunks);
        std::vector<std::pair<long, long>> got;
        for (auto& p : parts) {
            auto v = collect(p, limit);
            got.insert(got.end(), v.begin(), v.end());
            if (got.size() > limit) break;
        }
        expect_pairs("partition", "partition", (long)chunks, 0, got, all);
        if (msize == 0) CHECK(parts.empty(), "partition-empty", "partition(%zu) of an empty relation returned %zu ranges", chunks, parts.size());
    }
}

static void run_inserts(int task, const std::vector<Op>& ops) {
    for (const Op& op : ops) {
        Rel& r = W->rel[op.c & 1];
        bool ret;
        if (op.d & 1)
            ret = r.insert(tup(op.a, op.b));
        else
            ret = r.insert((RamDomain)op.a, (RamDomain)op.b);
        // the boolean returned by a *concurrent* insert is not constrained by the property (see DESIGN.md §4)
        (void)ret;
        sim::note(((uint64_t)task << 56) ^ ((uint64_t)(uint32_t)op.a << 20) ^ (uint64_t)(uint32_t)op.b);
        OPDONE();
    }
}

static void run_queries(int task, const std::vector<Op>& ops) {
    for (const Op& op : ops) {
        int which = (int)(op.c & 1);
        Rel& r = W->rel[which];
        // the model is frozen during a read-only phase; oracle work runs non-preemptibly on a task-local copy
        Model local;
        size_t limit;
        {
            NoPreempt np;
            local = W->model[which];
            limit = local.size() + 8;
        }
        switch (op.code) {
            case OP_CONTAINS: {
                bool c = r.contains((RamDomain)op.a, (RamDomain)op.b);
                NoPreempt np;
                CHECK(c == local.related(op.a, op.b), "concurrent-contains", "task %d: contains(%ld,%ld)=%d in a read-only phase", task, op.a, op.b, (int)c);
                break;
            }
            case OP_BOUNDS1: {
                auto got = collect(r.getBoundaries<1>(tup(op.a, 0)), limit);
                NoPreempt np;
                std::set<std::pair<long, long>> want;
                for (auto& p : local.pairs())
                    if (p.first == op.a) want.insert(p);
                expect_pairs("concurrent-bounds1", "getBoundaries<1> (read-only phase)", op.a, 0, got, want);
                break;
            }
            case OP_BOUNDS2: {
                auto got = collect(r.getBoundaries<2>(tup(op.a, op.b)), limit);
                NoPreempt np;
                std::set<std::pair<long, long>> want;
                if (local.related(op.a, op.b)) want.emplace(op.a, op.b);
                expect_pairs("concurrent-bounds2", "getBoundaries<2> (read-only phase)", op.a, op.b, got, want);
                break;
            }
            case OP_SIZE: {
                size_t s = r.size();
                NoPreempt np;
                CHECK(s == local.size(), "concurrent-size", "task %d: size()=%zu in a read-only phase, model %zu", task, s, local.size());
                break;
            }
            case OP_ITERATE: {
                auto parts = r.partition((size_t)(1 + (op.a & 7)));
                std::vector<std::pair<long, long>> got;
                for (auto& p : parts) {
                    auto v = collect(p, limit);
                    got.insert(got.end(), v.begin(), v.end());
                    if (got.size() > limit) break;
                }
                NoPreempt np;
                expect_pairs("concurrent-partition", "partition (read-only phase)", op.a & 7, 0, got, local.pairs());
                break;
            }
            default: break;
        }
        sim::note(((uint64_t)task << 56) ^ (uint64_t)op.code);
        OPDONE();
    }
}

static void run_sequential(const std::vector<Op>& ops) {
    for (const Op& op : ops) {
        int t = (int)(op.c & 1), o = 1 - t;
        Rel& r = W->rel[t];
        Model& m = W->model[t];
        switch (op.code) {
            case OP_INSERT: {
                bool was = m.related(op.a, op.b);
                bool ret = r.insert((RamDomain)op.a, (RamDomain)op.b);
                CHECK(ret == !was, "seq-insert-ret", "sequential insert(%ld,%ld) into relation %d returned %d, pair %s related before", op.a, op.b, t, (int)ret,
                        was ? "was" : "was not");
                m.unite(op.a, op.b);
                break;
            }
            case OP_INSERTALL: {
                r.insertAll(W->rel[o]);
                for (auto& kv : W->model[o].classes())
                    for (long e : kv.second) m.unite(kv.first, e);
                COUNT("insertAll");
                break;
            }
            case OP_EXTEND: {
                // this = r (new knowledge), other = W->rel[o] (old knowledge)
                Model& mo = W->model[o];
                auto thisClasses = m.classes();  // classes of the new knowledge before extension
                // every class of `other` that shares an element with `this` is pulled into `this`
                for (auto& kv : mo.classes()) {
                    bool intersects = false;
                    for (long e : kv.second) intersects = intersects || m.has(e);
                    if (intersects)
                        for (long e : kv.second) m.unite(kv.first, e);
                }
                // every original class of `this` is inserted into `other`
                for (auto& kv : thisClasses)
                    for (long e : kv.second) mo.unite(kv.first, e);
                r.extendAndInsert(W->rel[o]);
                COUNT("extendAndInsert");
                break;
            }
            default: break;
        }
        OPDONE();
        if (g_res && !g_res->ok) return;
    }
}

static long draw(Rng& r, int kind, long D) {
    if (kind == 0) return (long)r.below(D);
    if (kind == 1) {
        static const long ext[] = {INT_MAX, INT_MAX - 1, INT_MIN + 1, INT_MIN + 2, -1, 0, 1};
        return r.chance(1, 2) ? ext[r.below(7)] : (long)r.below(D);
    }
    return (long)(int)r.next();
}

Workload gen(uint64_t seed, bool thorough) {
    Rng r(seed);
    Workload w;
    w.params["probe_seed"] = (long)(r.next() & 0x7fffffff);
    int kind = (int)r.below(3);
    long D = r.pick(std::vector<long>{3, 6, 12, 30, 100});
    int nphases = (int)r.range(1, thorough ? 6 : 4);
    std::vector<long> used;
    auto mkins = [&](int rel) {
        Op o;
        o.code = OP_INSERT;
        o.a = draw(r, kind, D);
        o.b = r.chance(1, 3) && !used.empty() ? used[r.below(used.size())] : draw(r, kind, D);
        if (r.chance(1, 12)) o.b = o.a;
        o.c = rel;
        if (r.chance(1, 4)) o.d = 1;
        used.push_back(o.a);
        used.push_back(o.b);
        return o;
    };
    for (int p = 0; p < nphases; p++) {
        int x = (int)r.below(100);
        if (x < 55 || p == 0) {
            Phase ph;
            ph.kind = 1;
            int T = (int)r.range(1, 8);
            int n = (int)r.range(1, thorough ? 120 : 25);
            int rel = r.chance(3, 4) ? 0 : 1;
            bool chain = r.chance(1, 3);
            for (int t = 0; t < T; t++) {
                std::vector<Op> ops;
                for (int i = 0; i < n; i++) {
                    Op o = mkins(rel);
                    if (chain) {  // long union chains: deep parent paths, heavy contention on few roots
                        o.a = i % (D + 1);
                        o.b = (i + 1) % (D + 1);
                    }
                    ops.push_back(o);
                }
                ph.tasks.push_back(ops);
            }
            // sometimes the first readers after the inserts are concurrent ones
            bool readers_next = !used.empty() && r.chance(1, 3);
            if (readers_next) ph.kind = 4;
            w.phases.push_back(ph);
            if (readers_next) {
                Phase q;
                q.kind = 2;
                int TQ = (int)r.range(2, 6);
                for (int t = 0; t < TQ; t++) {
                    std::vector<Op> ops;
                    int nq = (int)r.range(1, thorough ? 20 : 6);
                    for (int i = 0; i < nq; i++) {
                        Op o;
                        o.code = (int)r.range(OP_CONTAINS, OP_ITERATE);
                        o.a = r.chance(3, 4) ? used[r.below(used.size())] : draw(r, kind, D);
                        o.b = r.chance(3, 4) ? used[r.below(used.size())] : draw(r, kind, D);
                        o.c = rel;
                        ops.push_back(o);
                    }
                    q.tasks.push_back(ops);
                }
                w.phases.push_back(q);
            }
        } else if (x < 85) {
            Phase ph;
            ph.kind = 0;
            std::vector<Op> ops;
            int n = (int)r.range(1, thorough ? 60 : 15);
            if (r.chance(1, 3)) {
                // a bulk merge as the very first operation after a query block (iteration cache is fresh at that moment)
                Op o;
                o.code = r.chance(1, 2) ? OP_INSERTALL : OP_EXTEND;
                o.c = r.chance(2, 3) ? 0 : 1;
                ops.push_back(o);
            }
            for (int i = 0; i < n; i++) {
                int y = (int)r.below(100);
                if (y < 70) {
                    ops.push_back(mkins(r.chance(1, 2) ? 0 : 1));
                } else {
                    Op o;
                    o.code = y < 85 ? OP_INSERTALL : OP_EXTEND;
                    o.c = r.chance(2, 3) ? 0 : 1;
                    ops.push_back(o);
                }
            }
            ph.tasks.push_back(ops);
            w.phases.push_back(ph);
        } else if (!used.empty()) {
            Phase ph;
            ph.kind = 2;
            int T = (int)r.range(2, 6);
            for (int t = 0; t < T; t++) {
                std::vector<Op> ops;
                int n = (int)r.range(1, thorough ? 30 : 8);
                for (int i = 0; i < n; i++) {
                    Op o;
                    o.code = (int)r.range(OP_CONTAINS, OP_ITERATE);
                    o.a = r.chance(3, 4) ? used[r.below(used.size())] : draw(r, kind, D);
                    o.b = r.chance(3, 4) ? used[r.below(used.size())] : draw(r, kind, D);
                    o.c = r.chance(3, 4) ? 0 : 1;
                    ops.push_back(o);
                }
                ph.tasks.push_back(ops);
            }
            w.phases.push_back(ph);
        }
    }
    return w;
}

void configure(sim::RunCfg& cfg, const Workload& w) {
    cfg.step_budget = 400000000;
    cfg.pct_est_steps = 80 * std::max<size_t>(1, w.total_ops());
    sim::set_livelock_limit(3000000);
}

void execute(const Workload& wl, Result& res) {
    World world;
    W = &world;
    Rng prng((uint64_t)wl.param("probe_seed", 1));
    for (const Phase& ph : wl.phases) {
        if (ph.kind == 1 || ph.kind == 4) {
            sim::parallel((int)ph.tasks.size(), [&](int t) { run_inserts(t, ph.tasks[t]); });
            for (auto& t : ph.tasks)
                for (auto& o : t) world.model[o.c & 1].unite(o.a, o.b);
        } else if (ph.kind == 2) {
            sim::parallel((int)ph.tasks.size(), [&](int t) { run_queries(t, ph.tasks[t]); });
        } else {
            for (auto& t : ph.tasks) run_sequential(t);
        }
        if (!res.ok) break;
        // kind 4: no quiescent query block after these inserts, so that the concurrent readers of the next phase are the first
        // to look at the relation (the iteration cache is still stale when they arrive)
        if (ph.kind == 4) continue;
        // probes: touched elements (all of them when few) plus untouched values
        for (int which = 0; which < 2; which++) {
            std::vector<long> probes;
            for (auto& kv : world.model[which].parent) probes.push_back(kv.first);
            while (probes.size() > 14) probes.erase(probes.begin() + (long)prng.below(probes.size()));
            probes.push_back(123456);
            probes.push_back(-7);
            check_relation(which, probes, ph.kind == 1 ? "after concurrent inserts" : ph.kind == 2 ? "after read-only phase" : "after sequential ops");
            if (!res.ok) break;
        }
        if (!res.ok) break;
    }
    COUNT("final_pairs_A", world.model[0].size());
    W = nullptr;
}

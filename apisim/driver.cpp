// Generic driver of the C++ embedding API (SouffleInterface.h) for C21.  Linked with a synthesised program (compiled with
// -D__EMBEDDED_SOUFFLE__) and simrt; interprets a script of API calls and prints one result line per call.  run() executes
// its parallel regions under the simulator.
//   usage: prog <program-name> <script-file>
// script lines:  threads K | insert REL v.. | contains REL v.. | dump REL | size REL | purge REL | purgein | purgeout |
//                purgeinternal | run | printall DIR | loadall DIR
#include "souffle/SouffleInterface.h"

#include <algorithm>
#include <fstream>
#include <iomanip>
#include <limits>
#include <iostream>
#include <sstream>
#include <string>
#include <vector>

using namespace souffle;

static bool supported(const Relation* r) {
    for (std::size_t i = 0; i < r->getArity(); i++) {
        char c = *r->getAttrType(i);
        if (c != 'i' && c != 'u' && c != 'f' && c != 's') return false;
    }
    return true;
}

static bool fill(tuple& t, const Relation* r, const std::vector<std::string>& vals) {
    if (vals.size() != r->getArity()) return false;
    for (std::size_t i = 0; i < r->getArity(); i++) {
        switch (*r->getAttrType(i)) {
            case 's': t << vals[i]; break;
            case 'i': t << (RamSigned)std::stol(vals[i]); break;
            case 'u': t << (RamUnsigned)std::stoul(vals[i]); break;
            case 'f': t << (RamFloat)std::stod(vals[i]); break;
            default: return false;
        }
    }
    return true;
}

static std::string show(tuple& t, const Relation* r) {
    std::ostringstream os;
    // floats rendered as the CSV writer renders them (the model compares the API view with the file-based view)
    os << std::setprecision(std::numeric_limits<RamFloat>::max_digits10);
    t.rewind();
    for (std::size_t i = 0; i < r->getArity(); i++) {
        if (i) os << "\t";
        switch (*r->getAttrType(i)) {
            case 's': {
                std::string s;
                t >> s;
                os << s;
                break;
            }
            case 'i': {
                RamSigned v;
                t >> v;
                os << v;
                break;
            }
            case 'u': {
                RamUnsigned v;
                t >> v;
                os << v;
                break;
            }
            case 'f': {
                RamFloat v;
                t >> v;
                os << v;
                break;
            }
            default: os << "?";
        }
    }
    return os.str();
}

static std::vector<std::string> split_tab(const std::string& s) {
    std::vector<std::string> v;
    std::string cur;
    for (char c : s) {
        if (c == '\t') {
            v.push_back(cur);
            cur.clear();
        } else {
            cur += c;
        }
    }
    v.push_back(cur);
    return v;
}

int main(int argc, char** argv) {
    if (argc < 3) return 2;
    // several independent instances of the same program may be driven by one script ("instance K" switches)
    std::vector<SouffleProgram*> instances;
    SouffleProgram* prog = ProgramFactory::newInstance(argv[1]);
    if (!prog) {
        std::cerr << "no program " << argv[1] << "\n";
        return 3;
    }
    instances.push_back(prog);
    std::ifstream in(argv[2]);
    std::string line;
    std::size_t n = 0;
    while (std::getline(in, line)) {
        n++;
        // op \t rel \t values...
        auto f = split_tab(line);
        const std::string& op = f[0];
        std::cout << "op " << n << " " << op;
        if (op == "instance") {
            std::size_t k = (std::size_t)std::stoul(f[1]);
            while (instances.size() <= k) instances.push_back(ProgramFactory::newInstance(argv[1]));
            prog = instances[k];
            std::cout << " ok\n";
        } else if (op == "threads") {
            prog->setNumThreads((std::size_t)std::stoul(f[1]));
            std::cout << " ok\n";
        } else if (op == "run") {
            prog->run();
            std::cout << " ok\n";
        } else if (op == "runall") {
            // file-based entry point on the same instance: load the inputs from IN, evaluate, write the outputs to OUT
            prog->runAll(f[1], f[2], true, false);
            std::cout << " ok\n";
        } else if (op == "purgein") {
            prog->purgeInputRelations();
            std::cout << " ok\n";
        } else if (op == "purgeout") {
            prog->purgeOutputRelations();
            std::cout << " ok\n";
        } else if (op == "purgeinternal") {
            prog->purgeInternalRelations();
            std::cout << " ok\n";
        } else if (op == "printall") {
            prog->printAll(f[1]);
            std::cout << " ok\n";
        } else if (op == "loadall") {
            prog->loadAll(f[1]);
            std::cout << " ok\n";
        } else {
            Relation* r = prog->getRelation(f[1]);
            if (!r) {
                std::cout << " norel\n";
                continue;
            }
            if (!supported(r)) {
                std::cout << " unsupported\n";
                continue;
            }
            std::vector<std::string> vals(f.begin() + 2, f.end());
            if (r->getArity() == 0) vals.clear();
            if (op == "insert") {
                tuple t(r);
                if (!fill(t, r, vals)) {
                    std::cout << " badargs\n";
                    continue;
                }
                r->insert(t);
                std::cout << " ok\n";
            } else if (op == "contains") {
                tuple t(r);
                if (!fill(t, r, vals)) {
                    std::cout << " badargs\n";
                    continue;
                }
                std::cout << " " << (r->contains(t) ? 1 : 0) << "\n";
            } else if (op == "size") {
                std::cout << " " << r->size() << "\n";
            } else if (op == "purge") {
                r->purge();
                std::cout << " ok\n";
            } else if (op == "dump") {
                std::vector<std::string> rows;
                bool member_ok = true;
                for (auto& t : *r) {
                    rows.push_back(show(t, r));
                    // membership agrees with iteration
                    if (!r->contains(t)) member_ok = false;
                }
                std::cout << " " << rows.size() << " size=" << r->size() << " member=" << (member_ok ? 1 : 0) << "\n";
                for (auto& s : rows) std::cout << "row\t" << s << "\n";
                std::cout << "end\n";
            } else {
                std::cout << " unknown\n";
            }
        }
    }
    for (auto* p : instances) delete p;
    return 0;
}

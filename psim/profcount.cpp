// Prints "<relation>\t<tuple count>" for every relation of a Soufflé profile, using the repository's own profile reader
// (the same code path souffleprof uses; the viewer's table abbreviates counts, this prints them exactly).
#include "souffle/profile/ProgramRun.h"
#include "souffle/profile/Reader.h"
#include "souffle/profile/Relation.h"
#include <cstdio>
#include <memory>

int main(int argc, char** argv) {
    if (argc < 2) return 2;
    auto run = std::make_shared<souffle::profile::ProgramRun>();
    souffle::profile::Reader reader(argv[1], run);
    reader.processFile();
    if (!reader.isLoaded()) {
        std::fprintf(stderr, "profile not loaded\n");
        return 3;
    }
    for (auto& kv : run->getRelationMap()) {
        std::printf("%s\t%zu\n", kv.second->getName().c_str(), kv.second->size());
    }
    return 0;
}

#!/bin/bash
# Builds the instrumented whole-program simulator binary /verif/build/sv/simsouffle from $VERIF_REPO (default /repo):
# libsouffle compiled with the tsan instrumentation pass + -fopenmp, linked against simrt instead of libtsan/libgomp.
set -e
V="$(cd "$(dirname "$0")/.." && pwd)"   # root of the verif tree this script belongs to (may be a snapshot)
REPO=${VERIF_REPO:-/repo}
B=${VERIF_BUILD:-$V/build}/sv
mkdir -p $B
exec 9>$B/.lock; flock 9
FLAGS="-O1 -fsanitize=thread --param tsan-instrument-func-entry-exit=0 --param tsan-distinguish-volatile=1 -DSOUFFLE_VERIF -w"
if [ ! -f $B/build.ninja ] || [ "$(cat $B/.repo 2>/dev/null)" != "$REPO" ]; then
  rm -rf $B/CMakeCache.txt $B/CMakeFiles
  cmake -S $REPO -B $B -G Ninja -DCMAKE_BUILD_TYPE=None "-DCMAKE_CXX_FLAGS=$FLAGS" -DSOUFFLE_ENABLE_TESTING=OFF -DSOUFFLE_GIT=OFF \
        -DCMAKE_CXX_COMPILER_LAUNCHER=ccache > $B/cmake.log 2>&1 || { tail -30 $B/cmake.log; exit 1; }
  echo "$REPO" > $B/.repo
fi
ninja -C $B libsouffle > $B/ninja.log 2>&1 || { tail -40 $B/ninja.log; exit 1; }
SIMO=$B/simrt.o
if [ ! -f $SIMO ] || [ $V/simrt/simrt.cpp -nt $SIMO ] || [ $V/simrt/simrt.h -nt $SIMO ]; then
  g++ -O2 -g -std=c++17 -c $V/simrt/simrt.cpp -o $SIMO.tmp.$$ && mv $SIMO.tmp.$$ $SIMO
fi
# main() of souffle, same flags
INC="-I$REPO/src -I$REPO/src/include -I$B/src -I$B/src/include"
if [ ! -f $B/souffle_main.o ] || [ $REPO/src/souffle.cpp -nt $B/souffle_main.o ]; then
  g++ -std=c++17 $FLAGS -fopenmp $INC -DUSE_NCURSES -DUSE_LIBZ -DUSE_SQLITE -c $REPO/src/souffle.cpp -o $B/souffle_main.o
fi
LIB=$(find $B/src -name 'libsouffle.a' | head -1)
if [ ! -f $B/simsouffle ] || [ $LIB -nt $B/simsouffle ] || [ $SIMO -nt $B/simsouffle ] || [ $B/souffle_main.o -nt $B/simsouffle ]; then
  g++ -o $B/simsouffle.tmp.$$ $B/souffle_main.o $LIB $SIMO -lffi -lz -lsqlite3 -lncurses -ldl -lpthread && mv $B/simsouffle.tmp.$$ $B/simsouffle
fi
echo $B/simsouffle

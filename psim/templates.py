"""Template programs for C10 (choice-domain) and C11 (subsumption) with an independent mini evaluator.

Rules are kept as data (so that the oracle evaluates exactly what was rendered to Datalog text):
  term    := ("v", name) | ("c", int) | ("_",) | ("+", term, term)
  literal := ("atom", rel, [terms]) | ("not", rel, [terms]) | ("cmp", op, term, term)
  rule    := {"head": (rel, [terms]), "body": [literals]}
The evaluator is a naive bottom-up fixpoint over sets of integer tuples."""
import itertools
import random

OPS = {"<": lambda a, b: a < b, "<=": lambda a, b: a <= b, ">": lambda a, b: a > b, ">=": lambda a, b: a >= b, "=": lambda a, b: a == b,
       "!=": lambda a, b: a != b}


def V(n):
    return ("v", n)


def C(k):
    return ("c", k)


U = ("_",)


def ADD(a, b):
    return ("+", a, b)


def render_term(t):
    if t[0] == "v":
        return t[1]
    if t[0] == "c":
        return str(t[1])
    if t[0] == "_":
        return "_"
    return "(%s+%s)" % (render_term(t[1]), render_term(t[2]))


def render_lit(l):
    if l[0] == "agg":
        # ("agg", op, resultvar, target-term-or-None, inner-atom-literal)
        tgt = "" if l[1] == "count" else " " + render_term(l[3])
        return "%s = %s%s : { %s }" % (l[2], l[1], tgt, render_lit(l[4]))
    if l[0] == "atom":
        return "%s(%s)" % (l[1], ",".join(render_term(t) for t in l[2]))
    if l[0] == "not":
        return "!%s(%s)" % (l[1], ",".join(render_term(t) for t in l[2]))
    return "%s %s %s" % (render_term(l[2]), l[1], render_term(l[3]))


def render_rule(r):
    h = "%s(%s)" % (r["head"][0], ",".join(render_term(t) for t in r["head"][1]))
    if not r["body"]:
        return h + "."
    return h + " :- " + ", ".join(render_lit(l) for l in r["body"]) + "."


def ev_term(t, env):
    if t[0] == "v":
        return env[t[1]]
    if t[0] == "c":
        return t[1]
    if t[0] == "+":
        return ev_term(t[1], env) + ev_term(t[2], env)
    raise KeyError("unbound")


def match(terms, tup, env):
    """unify a tuple with the atom's terms; returns extended env or None"""
    e = env
    copied = False
    for t, v in zip(terms, tup):
        if t[0] == "_":
            continue
        if t[0] == "c":
            if t[1] != v:
                return None
        elif t[0] == "v":
            if t[1] in e:
                if e[t[1]] != v:
                    return None
            else:
                if not copied:
                    e = dict(e)
                    copied = True
                e[t[1]] = v
        else:
            try:
                if ev_term(t, e) != v:
                    return None
            except KeyError:
                return None
    return e


def derive(rule, db):
    """all head tuples the rule derives from db in one step"""
    envs = [{}]
    for l in rule["body"]:
        nxt = []
        if l[0] == "atom":
            rows = db.get(l[1], ())
            for e in envs:
                for tup in rows:
                    e2 = match(l[2], tup, e)
                    if e2 is not None:
                        nxt.append(e2)
        elif l[0] == "not":
            rows = db.get(l[1], ())
            for e in envs:
                if not any(match(l[2], tup, e) is not None for tup in rows):
                    nxt.append(e)
        elif l[0] == "agg":
            op, res, tgt, inner = l[1], l[2], l[3], l[4]
            rows = db.get(inner[1], ())
            for e in envs:
                ms = [m for m in (match(inner[2], tup, e) for tup in rows) if m is not None]
                if op == "count":
                    v = len(ms)
                else:
                    vals = [ev_term(tgt, m) for m in ms]
                    if not vals and op in ("min", "max"):
                        continue  # min/max over the empty set yields no tuple
                    v = sum(vals) if op == "sum" else min(vals) if op == "min" else max(vals)
                e2 = dict(e)
                if res in e2 and e2[res] != v:
                    continue
                e2[res] = v
                nxt.append(e2)
        else:
            for e in envs:
                if OPS[l[1]](ev_term(l[2], e), ev_term(l[3], e)):
                    nxt.append(e)
        envs = nxt
        if not envs:
            break
    return set(tuple(ev_term(t, e) for t in rule["head"][1]) for e in envs)


def fixpoint(rules, edb, limit=200000):
    db = {k: set(v) for k, v in edb.items()}
    changed = True
    while changed:
        changed = False
        for r in rules:
            new = derive(r, db) - db.setdefault(r["head"][0], set())
            if new:
                db[r["head"][0]] |= new
                changed = True
                if sum(len(v) for v in db.values()) > limit:
                    raise RuntimeError("fixpoint too large")
    return db


class Tmpl:
    def __init__(self):
        self.decls, self.rules, self.extra_text, self.outputs, self.facts = [], [], [], [], {}
        self.meta = {}

    def text(self):
        out = list(self.decls)
        for n in self.facts:
            out.append(".input %s" % n)
        out += [render_rule(r) for r in self.rules if not r.get("hidden")]
        out += self.extra_text
        for n in self.outputs:
            out.append(".output %s" % n)
        return "\n".join(out) + "\n"


def edb(t, r, nedges, dom, weights=8):
    e1 = set((r.randrange(dom), r.randrange(dom)) for _ in range(nedges))
    ew = set((a, b, r.randrange(1, weights)) for a, b in e1)
    n1 = set((r.randrange(dom),) for _ in range(max(2, nedges // 4)))
    e2 = set((r.randrange(dom // 2 + 1), r.randrange(6), r.randrange(6)) for _ in range(nedges))
    t.decls += [".decl e1(x:number,y:number)", ".decl ew(x:number,y:number,w:number)", ".decl n1(x:number)", ".decl e2(k:number,a:number,b:number)"]
    t.facts = {"e1": [tuple(map(str, x)) for x in sorted(e1)], "ew": [tuple(map(str, x)) for x in sorted(ew)],
               "n1": [tuple(map(str, x)) for x in sorted(n1)], "e2": [tuple(map(str, x)) for x in sorted(e2)]}
    t.meta["edb"] = {"e1": sorted(e1), "ew": sorted(ew), "n1": sorted(n1), "e2": sorted(e2)}


def side_rules(t, r):
    """ordinary parallelisable rules in the same program (their outputs must equal the -j1 run)"""
    t.decls.append(".decl side1(x:number,z:number)")
    t.rules.append({"head": ("side1", [V("x"), V("z")]), "body": [("atom", "e1", [V("x"), V("y")]), ("atom", "e1", [V("y"), V("z")]), ("cmp", "!=", V("x"), V("z"))]})
    t.outputs.append("side1")
    if r.random() < 0.5:
        t.decls.append(".decl side2(x:number,y:number)")
        t.rules.append({"head": ("side2", [V("x"), V("y")]), "body": [("atom", "e1", [V("x"), V("y")]), ("cmp", "<", V("x"), V("y"))]})
        t.rules.append({"head": ("side2", [V("x"), V("z")]), "body": [("atom", "side2", [V("x"), V("y")]), ("atom", "e1", [V("y"), V("z")]), ("cmp", "<", V("y"), V("z"))]})
        t.outputs.append("side2")


# ---------------------------------------------------------------------------------------- C10 choice-domain
def gen_c10(seed, size="quick"):
    r = random.Random(seed)
    t = Tmpl()
    dom = r.choice([8, 15, 30])
    edb(t, r, r.choice([20, 60, 150]) if size == "quick" else r.choice([60, 150, 300]), dom)
    t.meta["choice"] = []
    kinds = r.sample(["single", "two", "composite", "tree", "recursive_pick", "agg", "agg2", "idx", "idx2", "exists", "nonprefix", "arith", "withfacts", "rec3", "tree_helper", "pingpong", "repeat", "inline_body", "subkey", "twin", "gap"],
                     r.randrange(1, 4))
    for kind in kinds:
        if kind == "nonprefix":
            # key columns that are not a prefix of the relation; one single-column key and one composite key
            t.decls.append(".decl pickn(a:number,b:number,c:number) choice-domain c, (a,b)")
            t.rules.append({"head": ("pickn", [V("k"), V("a"), V("b")]), "body": [("atom", "e2", [V("k"), V("a"), V("b")])]})
            t.rules.append({"head": ("pickn", [V("x"), V("y"), V("w")]), "body": [("atom", "ew", [V("x"), V("y"), V("w")])]})
            t.meta["choice"].append({"rel": "pickn", "keys": [[2], [0, 1]]})
            t.outputs.append("pickn")
        elif kind == "arith":
            # computed values and constants in key columns of the head
            t.decls.append(".decl picka(x:number,y:number) choice-domain x")
            t.rules.append({"head": ("picka", [ADD(V("x"), C(1)), V("y")]), "body": [("atom", "e1", [V("x"), V("y")])]})
            t.rules.append({"head": ("picka", [C(1), V("y")]), "body": [("atom", "n1", [V("y")])]})
            t.meta["choice"].append({"rel": "picka", "keys": [[0]]})
            t.outputs.append("picka")
        elif kind == "withfacts":
            # facts and rules for the same choice relation (the facts take the keys first)
            t.decls.append(".decl pickf(x:number,y:number) choice-domain x, y")
            t.rules.append({"head": ("pickf", [C(0), C(100)]), "body": []})
            t.rules.append({"head": ("pickf", [C(1), C(101)]), "body": []})
            t.rules.append({"head": ("pickf", [V("x"), V("y")]), "body": [("atom", "e1", [V("x"), V("y")])]})
            t.meta["choice"].append({"rel": "pickf", "keys": [[0], [1]]})
            t.outputs.append("pickf")
        elif kind == "twin":
            # a choice relation and a plain relation with the same single rule, neither of them an output: program
            # minimisation must not merge them (the copies that are written show which one survived)
            cz = r.choice(["twa", "twz"])  # sorts before / after the plain twin
            k = r.randrange(0, 4)
            t.decls.append(".decl %s(x:number,y:number) choice-domain x" % cz)
            t.decls.append(".decl twm(x:number,y:number)")
            t.decls.append(".decl otz(x:number,y:number)")
            t.decls.append(".decl otm(x:number,y:number)")
            t.extra_text.append("twm(x,y) :- e1(x,y), x > %d." % k)
            t.extra_text.append("%s(x,y) :- e1(x,y), x > %d." % (cz, k))
            t.extra_text.append("otz(x,y) :- %s(x,y)." % cz)
            t.extra_text.append("otm(x,y) :- twm(x,y).")
            t.rules.append({"head": ("otz", [V("x"), V("y")]), "body": [("atom", "e1", [V("x"), V("y")]), ("cmp", ">", V("x"), C(k))], "hidden": True})
            t.rules.append({"head": ("otm", [V("x"), V("y")]), "body": [("atom", "e1", [V("x"), V("y")]), ("cmp", ">", V("x"), C(k))], "hidden": True})
            t.meta["choice"].append({"rel": "otz", "keys": [[0]]})
            t.meta.setdefault("downstream", []).append("otm")
            t.outputs += ["otz", "otm"]
        elif kind == "gap":
            # an all-wildcard atom first (it takes a tuple level but no scan), then two or three joined atoms
            t.decls.append(".decl pgap(x:number,y:number) choice-domain x")
            t.rules.append({"head": ("pgap", [V("x"), V("y")]), "body": [("atom", "n1", [U]), ("atom", "e1", [V("x"), V("w")]), ("atom", "e1", [V("w"), V("y")])]})
            t.rules.append({"head": ("pgap", [V("x"), V("b")]),
                            "body": [("atom", "e1", [V("x"), V("w")]), ("atom", "e2", [U, U, U]), ("atom", "ew", [V("w"), V("b"), U]), ("cmp", "<", V("x"), C(4))]})
            t.meta["choice"].append({"rel": "pgap", "keys": [[0]]})
            t.outputs.append("pgap")
        elif kind == "subkey":
            # a composite key declared before one of its sub-keys (and the other way round), non-recursive and recursive
            order = r.choice(["(k,a), k", "k, (k,a)", "(k,a,b), (a,b)", "(k,a), a, k"])
            keys = {"(k,a), k": [[0, 1], [0]], "k, (k,a)": [[0], [0, 1]], "(k,a,b), (a,b)": [[0, 1, 2], [1, 2]], "(k,a), a, k": [[0, 1], [1], [0]]}[order]
            t.decls.append(".decl psk(k:number,a:number,b:number) choice-domain %s" % order)
            t.rules.append({"head": ("psk", [V("k"), V("a"), V("b")]), "body": [("atom", "e2", [V("k"), V("a"), V("b")])]})
            t.rules.append({"head": ("psk", [V("y"), V("a"), V("x")]), "body": [("atom", "psk", [V("x"), V("a"), U]), ("atom", "e1", [V("x"), V("y")])]})
            t.meta["choice"].append({"rel": "psk", "keys": keys})
            t.outputs.append("psk")
        elif kind == "repeat":
            # a repeated variable and a constant in the heads of a choice relation
            t.decls.append(".decl prr(x:number,y:number,z:number) choice-domain x, (y,z)")
            t.rules.append({"head": ("prr", [V("x"), V("x"), C(7)]), "body": [("atom", "n1", [V("x")])]})
            t.rules.append({"head": ("prr", [V("x"), V("y"), V("y")]), "body": [("atom", "e1", [V("x"), V("y")])]})
            t.meta["choice"].append({"rel": "prr", "keys": [[0], [1, 2]]})
            t.outputs.append("prr")
        elif kind == "inline_body":
            # the body of the choice rule goes through an inlined relation (the oracle evaluates the expanded rule)
            t.decls.append(".decl inl(x:number,y:number) inline")
            t.decls.append(".decl pin(x:number,y:number) choice-domain x")
            t.extra_text.append("inl(x,y) :- e1(x,y), x < y.")
            t.extra_text.append("inl(x,y) :- e1(y,x), x < 3.")
            t.extra_text.append("pin(x,y) :- inl(x,y).")
            t.rules.append({"head": ("pin", [V("x"), V("y")]), "body": [("atom", "e1", [V("x"), V("y")]), ("cmp", "<", V("x"), V("y"))], "hidden": True})
            t.rules.append({"head": ("pin", [V("x"), V("y")]), "body": [("atom", "e1", [V("y"), V("x")]), ("cmp", "<", V("x"), C(3))], "hidden": True})
            t.meta["choice"].append({"rel": "pin", "keys": [[0]]})
            t.outputs.append("pin")
        elif kind == "tree_helper":
            # spanning forest whose choice rule is recursive only through a helper relation of the same SCC
            t.decls.append(".decl parenth(v:number,p:number) choice-domain v")
            t.decls.append(".decl reached(v:number)")
            t.rules.append({"head": ("reached", [V("x")]), "body": [("atom", "n1", [V("x")]), ("cmp", "<", V("x"), C(3))]})
            t.rules.append({"head": ("reached", [V("v")]), "body": [("atom", "parenth", [V("v"), U])]})
            t.rules.append({"head": ("parenth", [V("v"), V("u")]), "body": [("atom", "reached", [V("u")]), ("atom", "e1", [V("u"), V("v")])]})
            t.meta["choice"].append({"rel": "parenth", "keys": [[0]]})
            t.meta.setdefault("downstream", []).append("reached")
            t.outputs += ["parenth", "reached"]
        elif kind == "pingpong":
            # two choice relations in one SCC, each recursive only through the other
            t.decls.append(".decl ping(x:number,y:number) choice-domain y")
            t.decls.append(".decl pong(x:number,y:number) choice-domain y")
            t.rules.append({"head": ("ping", [V("x"), V("y")]), "body": [("atom", "e1", [V("x"), V("y")]), ("cmp", "<", V("x"), C(2))]})
            t.rules.append({"head": ("pong", [V("y"), V("z")]), "body": [("atom", "ping", [U, V("y")]), ("atom", "e1", [V("y"), V("z")])]})
            t.rules.append({"head": ("ping", [V("y"), V("z")]), "body": [("atom", "pong", [U, V("y")]), ("atom", "e1", [V("y"), V("z")])]})
            t.meta["choice"].append({"rel": "ping", "keys": [[1]]})
            t.meta["choice"].append({"rel": "pong", "keys": [[1]]})
            t.outputs += ["ping", "pong"]
        elif kind == "rec3":
            # recursive choice rule with a composite key and a second key, key columns not first
            t.decls.append(".decl hop(d:number,x:number,y:number) choice-domain (d,x), y")
            t.rules.append({"head": ("hop", [C(0), V("x"), V("y")]), "body": [("atom", "e1", [V("x"), V("y")]), ("cmp", "<", V("x"), C(3))]})
            t.rules.append({"head": ("hop", [ADD(V("d"), C(1)), V("y"), V("z")]),
                            "body": [("atom", "hop", [V("d"), U, V("y")]), ("atom", "e1", [V("y"), V("z")]), ("cmp", "<", V("d"), C(4))]})
            t.meta["choice"].append({"rel": "hop", "keys": [[0, 1], [2]]})
            t.outputs.append("hop")
        elif kind == "idx":
            # outermost operation is an index scan (constant in the first atom)
            k = r.randrange(0, 4)
            t.decls.append(".decl picki(y:number,z:number) choice-domain y")
            t.rules.append({"head": ("picki", [V("y"), V("z")]), "body": [("atom", "e1", [C(k), V("y")]), ("atom", "e1", [V("y"), V("z")])]})
            t.rules.append({"head": ("picki", [V("y"), V("z")]), "body": [("atom", "e1", [C(k + 1), V("y")]), ("atom", "ew", [V("y"), V("z"), U])]})
            t.meta["choice"].append({"rel": "picki", "keys": [[0]]})
            t.outputs.append("picki")
        elif kind == "idx2":
            # outermost operation is a range index scan (inequality on the first atom), two keys
            k = r.randrange(0, 4)
            t.decls.append(".decl pickr(x:number,y:number) choice-domain x, y")
            t.rules.append({"head": ("pickr", [V("x"), V("y")]), "body": [("atom", "e1", [V("x"), V("y")]), ("cmp", ">", V("x"), C(k))]})
            t.meta["choice"].append({"rel": "pickr", "keys": [[0], [1]]})
            t.outputs.append("pickr")
        elif kind == "exists":
            # the first atom's variables are unused in the head: outermost IF EXISTS
            t.decls.append(".decl picke(z:number,w:number) choice-domain z")
            t.rules.append({"head": ("picke", [V("z"), V("w")]), "body": [("atom", "n1", [V("z")]), ("atom", "ew", [U, V("z"), V("w")])]})
            t.meta["choice"].append({"rel": "picke", "keys": [[0]]})
            t.outputs.append("picke")
        elif kind == "agg":
            # choice rule whose body contains an aggregate (the outer scan is a candidate for parallelisation)
            t.decls.append(".decl pickc(x:number,c:number) choice-domain c")
            t.rules.append({"head": ("pickc", [V("x"), V("c")]),
                            "body": [("atom", "e1", [V("x"), V("y")]), ("agg", "count", "c", None, ("atom", "e1", [V("y"), U]))]})
            t.meta["choice"].append({"rel": "pickc", "keys": [[1]]})
            t.outputs.append("pickc")
        elif kind == "agg2":
            t.decls.append(".decl pickm(x:number,m:number) choice-domain x")
            t.rules.append({"head": ("pickm", [V("x"), V("m")]),
                            "body": [("atom", "e1", [V("x"), V("y")]), ("agg", "max", "m", V("w"), ("atom", "ew", [V("y"), U, V("w")]))]})
            t.meta["choice"].append({"rel": "pickm", "keys": [[0]]})
            t.outputs.append("pickm")
        elif kind == "single":
            t.decls.append(".decl pick1(x:number,y:number) choice-domain x")
            t.rules.append({"head": ("pick1", [V("x"), V("y")]), "body": [("atom", "e1", [V("x"), V("y")])]})
            t.meta["choice"].append({"rel": "pick1", "keys": [[0]]})
            t.outputs.append("pick1")
            # downstream, non-recursive: must be exactly what the rule derives from this run's choice relation
            t.decls.append(".decl down1(x:number,z:number)")
            t.rules.append({"head": ("down1", [V("x"), V("z")]), "body": [("atom", "pick1", [V("x"), V("y")]), ("atom", "e1", [V("y"), V("z")])]})
            t.outputs.append("down1")
            t.meta.setdefault("downstream", []).append("down1")
        elif kind == "two":
            t.decls.append(".decl pick2(x:number,y:number) choice-domain x, y")
            t.rules.append({"head": ("pick2", [V("x"), V("y")]), "body": [("atom", "e1", [V("x"), V("y")]), ("cmp", "!=", V("x"), V("y"))]})
            t.meta["choice"].append({"rel": "pick2", "keys": [[0], [1]]})
            t.outputs.append("pick2")
        elif kind == "composite":
            t.decls.append(".decl pick3(k:number,a:number,b:number) choice-domain (k,a)")
            t.rules.append({"head": ("pick3", [V("k"), V("a"), V("b")]), "body": [("atom", "e2", [V("k"), V("a"), V("b")])]})
            t.rules.append({"head": ("pick3", [V("k"), V("b"), V("a")]), "body": [("atom", "e2", [V("k"), V("a"), V("b")]), ("cmp", "<", V("a"), V("b"))]})
            t.meta["choice"].append({"rel": "pick3", "keys": [[0, 1]]})
            t.outputs.append("pick3")
        elif kind == "tree":
            # spanning forest: every reached node picks one parent
            t.decls.append(".decl parent(v:number,p:number) choice-domain v")
            t.rules.append({"head": ("parent", [V("x"), V("x")]), "body": [("atom", "n1", [V("x")]), ("cmp", "<", V("x"), C(3))]})
            t.rules.append({"head": ("parent", [V("v"), V("u")]), "body": [("atom", "parent", [V("u"), U]), ("atom", "e1", [V("u"), V("v")])]})
            t.meta["choice"].append({"rel": "parent", "keys": [[0]]})
            t.outputs.append("parent")
        else:
            # recursive pick with two functional dependencies (a partial injective walk)
            t.decls.append(".decl walk(x:number,y:number) choice-domain x, y")
            t.rules.append({"head": ("walk", [V("x"), V("y")]), "body": [("atom", "e1", [V("x"), V("y")]), ("cmp", "<", V("x"), C(2))]})
            t.rules.append({"head": ("walk", [V("y"), V("z")]), "body": [("atom", "walk", [U, V("y")]), ("atom", "e1", [V("y"), V("z")])]})
            t.meta["choice"].append({"rel": "walk", "keys": [[0], [1]]})
            t.outputs.append("walk")
    side_rules(t, r)
    if r.random() < 0.2:
        # the magic-set pipeline must leave choice relations (and what they depend on) intact
        t.decls.insert(0, r.choice(['.pragma "magic-transform" "*"', '.pragma "magic-transform" "side1"']))
    return t


def check_c10(t_meta, rules, edb_sets, outputs):
    """returns list of (cls, msg). outputs: rel -> set of int tuples of this run."""
    fails = []
    db = dict(edb_sets)
    for rel, rows in outputs.items():
        db[rel] = rows
    for ch in t_meta["choice"]:
        rel = ch["rel"]
        rows = outputs.get(rel, set())
        # (i) functional dependencies
        for key in ch["keys"]:
            seen = {}
            for tup in rows:
                k = tuple(tup[i] for i in key)
                if k in seen and seen[k] != tup:
                    fails.append(("choice-fd", "%s holds %s and %s which agree on key columns %s" % (rel, seen[k], tup, key)))
                    break
                seen[k] = tup
        derivable = set()
        for r in rules:
            if r["head"][0] == rel:
                derivable |= derive(r, db)
        # (ii) soundness: one-step derivable from the final database
        bad = rows - derivable
        if bad:
            fails.append(("choice-unsound", "%s holds %s which no rule derives from the final database" % (rel, sorted(bad)[:3])))
        # (iii) maximality: every absent derivable tuple clashes on some key with a present tuple
        keysets = [set(tuple(tup[i] for i in key) for tup in rows) for key in ch["keys"]]
        for tup in derivable - rows:
            if not any(tuple(tup[i] for i in key) in ks for key, ks in zip(ch["keys"], keysets)):
                fails.append(("choice-not-maximal", "%s lacks derivable tuple %s although it clashes with no present tuple" % (rel, tup)))
                break
    for rel in t_meta.get("downstream", []):
        want = set()
        for r in rules:
            if r["head"][0] == rel:
                want |= derive(r, db)
        if outputs.get(rel, set()) != want:
            fails.append(("downstream-mismatch", "%s is not what its rules derive from this run's choice relation (%d vs %d tuples)" % (
                rel, len(outputs.get(rel, set())), len(want))))
    return fails


# ---------------------------------------------------------------------------------------- C11 subsumption
def gen_c11(seed, size="quick", always=()):
    r = random.Random(seed)
    t = Tmpl()
    dom = r.choice([6, 10, 16])
    edb(t, r, r.choice([15, 40, 90]) if size == "quick" else r.choice([40, 90, 200]), dom)
    t.meta["subsumed"] = []
    kinds = r.sample(["shortest", "pareto", "latest", "shortest2", "countdown", "via_helper", "merge", "loaded", "loaded_rec", "infacts", "guarded", "const_head", "secondary", "secondary3", "mutual_sub", "inline_order"],
                     r.randrange(1, 3))
    kinds = list(always) + [k for k in kinds if k not in always]
    for kind in kinds:
        if kind == "shortest":
            bound = r.choice([12, 20, 30])
            t.decls.append(".decl sp(x:number,d:number) btree_delete")
            t.rules.append({"head": ("sp", [V("x"), C(0)]), "body": [("atom", "n1", [V("x")]), ("cmp", "<", V("x"), C(3))]})
            t.rules.append({"head": ("sp", [V("y"), ADD(V("d"), V("w"))]),
                            "body": [("atom", "sp", [V("x"), V("d")]), ("atom", "ew", [V("x"), V("y"), V("w")]), ("cmp", "<", ADD(V("d"), V("w")), C(bound))]})
            t.extra_text.append("sp(x,d1) <= sp(x,d2) :- d2 < d1.")
            t.meta["subsumed"].append({"rel": "sp", "dom": "lt1", "monotone": True})
            t.outputs.append("sp")
        elif kind == "shortest2":
            bound = r.choice([10, 16])
            t.decls.append(".decl sq(x:number,y:number,d:number) btree_delete")
            t.rules.append({"head": ("sq", [V("x"), V("y"), V("w")]), "body": [("atom", "ew", [V("x"), V("y"), V("w")])]})
            t.rules.append({"head": ("sq", [V("x"), V("z"), ADD(V("d"), V("w"))]),
                            "body": [("atom", "sq", [V("x"), V("y"), V("d")]), ("atom", "ew", [V("y"), V("z"), V("w")]),
                                     ("cmp", "<", ADD(V("d"), V("w")), C(bound))]})
            t.extra_text.append("sq(x,y,d1) <= sq(x,y,d2) :- d2 < d1.")
            t.meta["subsumed"].append({"rel": "sq", "dom": "lt2", "monotone": True})
            t.outputs.append("sq")
        elif kind in ("loaded", "loaded_rec"):
            # the subsumptive relation is itself loaded from a fact file holding comparable tuples; it has no rule at all
            # ("loaded") or only a recursive one ("loaded_rec")
            rel = "lb" if kind == "loaded" else "ls"
            rows = set((r.randrange(dom), r.randrange(1, 12)) for _ in range(r.choice([8, 20, 40])))
            t.decls.append(".decl %s(x:number,d:number) btree_delete" % rel)
            t.facts[rel] = [tuple(map(str, x)) for x in sorted(rows)]
            t.meta["edb"][rel] = sorted(rows)
            if kind == "loaded_rec":
                bound = r.choice([12, 20])
                t.rules.append({"head": (rel, [V("y"), ADD(V("d"), V("w"))]),
                                "body": [("atom", rel, [V("x"), V("d")]), ("atom", "ew", [V("x"), V("y"), V("w")]), ("cmp", "<", ADD(V("d"), V("w")), C(bound))]})
            t.extra_text.append("%s(x,d1) <= %s(x,d2) :- d2 < d1." % (rel, rel))
            t.meta["subsumed"].append({"rel": rel, "dom": "lt1", "monotone": True})
            t.outputs.append(rel)
        elif kind in ("guarded", "const_head"):
            # dominance restricted by an extra body atom of the subsumptive clause / by constants in its heads: tuples outside
            # the guard are never subsumed (what they feed downstream depends on the iteration a dominated tuple disappears in,
            # so only "no dominated tuple" and "derivable" are judged, not minimality)
            rel = "gs" if kind == "guarded" else "ch"
            bound = r.choice([12, 20])
            t.decls.append(".decl %s(x:number,d:number) btree_delete" % rel)
            t.rules.append({"head": (rel, [V("x"), C(0)]), "body": [("atom", "n1", [V("x")]), ("cmp", "<", V("x"), C(4))]})
            t.rules.append({"head": (rel, [V("y"), ADD(V("d"), V("w"))]),
                            "body": [("atom", rel, [V("x"), V("d")]), ("atom", "ew", [V("x"), V("y"), V("w")]), ("cmp", "<", ADD(V("d"), V("w")), C(bound))]})
            if kind == "guarded":
                t.extra_text.append("%s(x,d1) <= %s(x,d2) :- d2 < d1, n1(x)." % (rel, rel))
                guard = sorted(x[0] for x in t.meta["edb"]["n1"])
            else:
                guard = sorted(r.sample(range(dom), 2))
                for g in guard:
                    t.extra_text.append("%s(%d,d1) <= %s(%d,d2) :- d2 < d1." % (rel, g, rel, g))
            t.meta["subsumed"].append({"rel": rel, "dom": "lt1_guard", "guard": guard, "monotone": False})
            t.outputs.append(rel)
        elif kind == "secondary":
            # the subsumptive relation is also searched through a second index (by its cost column) in a later stratum: erased
            # tuples must leave every index
            bound = r.choice([12, 20])
            t.decls.append(".decl sd(x:number,d:number) btree_delete")
            t.decls.append(".decl byd(d:number,x:number)")
            t.decls.append(".decl byx(x:number,c:number)")
            t.rules.append({"head": ("sd", [V("x"), C(0)]), "body": [("atom", "n1", [V("x")]), ("cmp", "<", V("x"), C(3))]})
            t.rules.append({"head": ("sd", [V("y"), ADD(V("d"), V("w"))]),
                            "body": [("atom", "sd", [V("x"), V("d")]), ("atom", "ew", [V("x"), V("y"), V("w")]), ("cmp", "<", ADD(V("d"), V("w")), C(bound))]})
            t.rules.append({"head": ("byd", [V("d"), V("x")]), "body": [("atom", "n1", [V("d")]), ("atom", "sd", [V("x"), V("d")])]})
            t.rules.append({"head": ("byx", [V("x"), V("c")]), "body": [("atom", "n1", [V("x")]), ("agg", "count", "c", None, ("atom", "sd", [V("x"), U]))]})
            t.extra_text.append("sd(x,d1) <= sd(x,d2) :- d2 < d1.")
            t.meta["subsumed"].append({"rel": "sd", "dom": "lt1", "monotone": True})
            t.meta.setdefault("downstream", []).extend(["byd", "byx"])
            t.outputs += ["sd", "byd", "byx"]
        elif kind == "mutual_sub":
            # two (or three) subsumptive relations in one SCC, each derived only from the previous one
            bound = r.choice([10, 16, 22])
            names = ["ua", "ub", "uc"][: r.choice([2, 2, 3])]
            r.shuffle(names)
            for nm in names:
                t.decls.append(".decl %s(x:number,d:number) btree_delete" % nm)
            t.rules.append({"head": (names[0], [V("x"), C(0)]), "body": [("atom", "n1", [V("x")]), ("cmp", "<", V("x"), C(3))]})
            for i, nm in enumerate(names):
                nxt = names[(i + 1) % len(names)]
                t.rules.append({"head": (nxt, [V("y"), ADD(V("d"), V("w"))]),
                                "body": [("atom", nm, [V("x"), V("d")]), ("atom", "ew", [V("x"), V("y"), V("w")]), ("cmp", "<", ADD(V("d"), V("w")), C(bound))]})
                t.extra_text.append("%s(x,d1) <= %s(x,d2) :- d2 < d1." % (nm, nm))
                t.meta["subsumed"].append({"rel": nm, "dom": "lt1", "monotone": True})
                t.outputs.append(nm)
        elif kind == "inline_order":
            # the dominance condition goes through an inlined relation (after inlining it is a plain constraint)
            bound = r.choice([12, 20])
            t.decls.append(".decl iso(x:number,d:number) btree_delete")
            t.decls.append(".decl cheaper(a:number,b:number) inline")
            t.extra_text.append("cheaper(a,b) :- a < b.")
            t.rules.append({"head": ("iso", [V("x"), C(0)]), "body": [("atom", "n1", [V("x")]), ("cmp", "<", V("x"), C(3))]})
            t.rules.append({"head": ("iso", [V("y"), ADD(V("d"), V("w"))]),
                            "body": [("atom", "iso", [V("x"), V("d")]), ("atom", "ew", [V("x"), V("y"), V("w")]), ("cmp", "<", ADD(V("d"), V("w")), C(bound))]})
            t.extra_text.append("iso(x,d1) <= iso(x,d2) :- cheaper(d2,d1).")
            t.meta["subsumed"].append({"rel": "iso", "dom": "lt1", "monotone": True})
            t.outputs.append("iso")
        elif kind == "secondary3":
            # cost-first shortest paths read by three later rules through three different indexes
            bound = r.choice([10, 16])
            t.decls.append(".decl s3(c:number,x:number,y:number) btree_delete")
            t.decls += [".decl from3(x:number,c:number,y:number)", ".decl into3(y:number,c:number)", ".decl cost3(c:number,x:number)"]
            t.rules.append({"head": ("s3", [V("w"), V("x"), V("y")]), "body": [("atom", "ew", [V("x"), V("y"), V("w")])]})
            t.rules.append({"head": ("s3", [ADD(V("c"), V("w")), V("x"), V("z")]),
                            "body": [("atom", "s3", [V("c"), V("x"), V("y")]), ("atom", "ew", [V("y"), V("z"), V("w")]), ("cmp", "<", ADD(V("c"), V("w")), C(bound))]})
            t.rules.append({"head": ("from3", [V("x"), V("c"), V("y")]), "body": [("atom", "n1", [V("x")]), ("atom", "s3", [V("c"), V("x"), V("y")])]})
            t.rules.append({"head": ("into3", [V("y"), V("c")]), "body": [("atom", "n1", [V("y")]), ("atom", "s3", [V("c"), U, V("y")])]})
            t.rules.append({"head": ("cost3", [V("c"), V("x")]), "body": [("atom", "n1", [V("c")]), ("atom", "s3", [V("c"), V("x"), U])]})
            t.extra_text.append("s3(c1,x,y) <= s3(c2,x,y) :- c2 < c1.")
            t.meta["subsumed"].append({"rel": "s3", "dom": "lt_first", "monotone": True})
            t.meta.setdefault("downstream", []).extend(["from3", "into3", "cost3"])
            t.outputs += ["s3", "from3", "into3", "cost3"]
        elif kind == "infacts":
            # comparable facts in the program text, optionally with a recursive rule
            t.decls.append(".decl lf(x:number,d:number) btree_delete")
            for _ in range(r.choice([4, 9])):
                t.rules.append({"head": ("lf", [C(r.randrange(4)), C(r.randrange(1, 9))]), "body": []})
            if r.random() < 0.5:
                t.rules.append({"head": ("lf", [V("y"), ADD(V("d"), V("w"))]),
                                "body": [("atom", "lf", [V("x"), V("d")]), ("atom", "ew", [V("x"), V("y"), V("w")]), ("cmp", "<", ADD(V("d"), V("w")), C(14))]})
            t.extra_text.append("lf(x,d1) <= lf(x,d2) :- d2 < d1.")
            t.meta["subsumed"].append({"rel": "lf", "dom": "lt1", "monotone": True})
            t.outputs.append("lf")
        elif kind == "via_helper":
            # the subsumptive relation is mutually recursive with an ordinary helper relation (one SCC, two relations);
            # the helper's name sorts after / before the subsumptive one depending on the seed
            bound = r.choice([10, 16, 24])
            helper = r.choice(["zreach", "areach"])
            t.decls.append(".decl hd(x:number,d:number) btree_delete")
            t.decls.append(".decl %s(x:number,d:number)" % helper)
            t.rules.append({"head": ("hd", [V("x"), C(0)]), "body": [("atom", "n1", [V("x")]), ("cmp", "<", V("x"), C(3))]})
            t.rules.append({"head": (helper, [V("y"), ADD(V("d"), V("w"))]),
                            "body": [("atom", "hd", [V("x"), V("d")]), ("atom", "ew", [V("x"), V("y"), V("w")]), ("cmp", "<", ADD(V("d"), V("w")), C(bound))]})
            t.rules.append({"head": ("hd", [V("y"), V("d")]), "body": [("atom", helper, [V("y"), V("d")])]})
            t.extra_text.append("hd(x,d1) <= hd(x,d2) :- d2 < d1.")
            t.meta["subsumed"].append({"rel": "hd", "dom": "lt1", "monotone": True})
            t.outputs.append("hd")
        elif kind == "merge":
            # a helper rule that uses the subsumptive relation twice (two tuples of the same delta must meet)
            bound = r.choice([12, 20])
            helper = r.choice(["zsum", "asum"])
            t.decls.append(".decl md(x:number,d:number) btree_delete")
            t.decls.append(".decl %s(x:number,d:number)" % helper)
            t.rules.append({"head": ("md", [V("x"), V("w")]), "body": [("atom", "ew", [V("x"), U, V("w")])]})
            t.rules.append({"head": (helper, [V("x"), ADD(V("a"), V("b"))]),
                            "body": [("atom", "md", [V("x"), V("a")]), ("atom", "e1", [V("x"), V("y")]), ("atom", "md", [V("y"), V("b")]),
                                     ("cmp", "<", ADD(V("a"), V("b")), C(bound))]})
            t.rules.append({"head": ("md", [V("x"), V("d")]), "body": [("atom", helper, [V("x"), V("d")]), ("cmp", "<", V("d"), C(3))]})
            t.extra_text.append("md(x,d1) <= md(x,d2) :- d2 < d1.")
            t.meta["subsumed"].append({"rel": "md", "dom": "lt1", "monotone": False})
            t.outputs.append("md")
        elif kind == "countdown":
            # every iteration derives a tuple that dominates the previous one: a chain a > b > c ... arriving one per iteration
            start = r.choice([6, 10, 15])
            t.decls.append(".decl cd(k:number,v:number) btree_delete")
            t.rules.append({"head": ("cd", [V("k"), C(start)]), "body": [("atom", "n1", [V("k")])]})
            t.rules.append({"head": ("cd", [V("k"), ADD(V("v"), C(-1))]), "body": [("atom", "cd", [V("k"), V("v")]), ("cmp", ">", V("v"), C(0))]})
            t.rules.append({"head": ("cd", [V("k"), ADD(V("v"), C(-2))]), "body": [("atom", "cd", [V("k"), V("v")]), ("cmp", ">", V("v"), C(1)), ("atom", "e1", [V("k"), U])]})
            t.extra_text.append("cd(k,v1) <= cd(k,v2) :- v2 < v1.")
            t.meta["subsumed"].append({"rel": "cd", "dom": "lt1", "monotone": True})
            t.outputs.append("cd")
        elif kind == "pareto":
            t.decls.append(".decl pf(k:number,a:number,b:number) btree_delete")
            t.rules.append({"head": ("pf", [V("k"), V("a"), V("b")]), "body": [("atom", "e2", [V("k"), V("a"), V("b")])]})
            # a second non-recursive rule for the same relation (dominators and dominated tuples come from different rules)
            t.rules.append({"head": ("pf", [V("k"), V("b"), V("a")]), "body": [("atom", "e2", [V("k"), V("a"), V("b")]), ("cmp", "<", V("a"), C(3))]})
            t.extra_text.append("pf(k,a1,b1) <= pf(k,a2,b2) :- a2 < a1, b2 <= b1.")
            t.extra_text.append("pf(k,a1,b1) <= pf(k,a2,b2) :- a2 <= a1, b2 < b1.")
            t.meta["subsumed"].append({"rel": "pf", "dom": "pareto", "monotone": True})
            t.outputs.append("pf")
        else:
            t.decls.append(".decl ver(k:number,v:number) btree_delete")
            t.rules.append({"head": ("ver", [V("k"), V("v")]), "body": [("atom", "e1", [V("k"), V("v")])]})
            t.rules.append({"head": ("ver", [V("k"), ADD(V("v"), C(1))]), "body": [("atom", "e1", [V("v"), V("k")]), ("cmp", "<", V("v"), C(5))]})
            t.extra_text.append("ver(k,v1) <= ver(k,v2) :- v1 < v2.")
            t.meta["subsumed"].append({"rel": "ver", "dom": "gt1", "monotone": True})
            t.outputs.append("ver")
    side_rules(t, r)
    return t


def dominated(dom, a, b, guard=()):
    """a is dominated by (subsumed by) b"""
    if a == b:
        return False
    if dom == "lt1":
        return a[0] == b[0] and b[1] < a[1]
    if dom == "lt_first":
        return a[1:] == b[1:] and b[0] < a[0]
    if dom == "lt1_guard":
        return a[0] == b[0] and b[1] < a[1] and a[0] in guard
    if dom == "lt2":
        return a[0] == b[0] and a[1] == b[1] and b[2] < a[2]
    if dom == "gt1":
        return a[0] == b[0] and a[1] < b[1]
    if dom == "pareto":
        return a[0] == b[0] and b[1] <= a[1] and b[2] <= a[2] and (b[1] < a[1] or b[2] < a[2])
    raise ValueError(dom)


def check_c11(t_meta, rules, edb_sets, outputs):
    fails = []
    full = fixpoint(rules, edb_sets)  # the program without the subsumptive clauses (bounded costs: finite)
    for sub in t_meta["subsumed"]:
        rel, dom = sub["rel"], sub["dom"]
        guard = set(sub.get("guard", ()))
        rows = outputs.get(rel, set())
        # (i) no final tuple dominated by another final tuple
        for a in rows:
            for b in rows:
                if dominated(dom, a, b, guard):
                    fails.append(("subsumption-dominated", "%s holds %s although it also holds the dominating %s" % (rel, a, b)))
                    break
            else:
                continue
            break
        # (ii) only tuples derivable without subsumption
        extra = rows - full.get(rel, set())
        if extra:
            fails.append(("subsumption-underivable", "%s holds %s which the program without subsumption never derives" % (rel, sorted(extra)[:3])))
        # (iii) monotone cost programs: exactly the minimal elements of the unsubsumed result
        if sub.get("monotone"):
            allr = full.get(rel, set())
            mins = set(a for a in allr if not any(dominated(dom, a, b) for b in allr))
            if rows != mins:
                fails.append(("subsumption-not-minimal", "%s has %d tuples, the minimal elements of the unsubsumed result are %d (missing %s, extra %s)" % (
                    rel, len(rows), len(mins), sorted(mins - rows)[:3], sorted(rows - mins)[:3])))
    # relations of later strata that read the final subsumptive relation (through other indexes): exactly what their rules derive
    # from this run's final relations
    if t_meta.get("downstream"):
        db = dict(edb_sets)
        for rel, rows in outputs.items():
            db[rel] = rows
        for rel in t_meta["downstream"]:
            want = set()
            for r in rules:
                if r["head"][0] == rel:
                    want |= derive(r, db)
            if outputs.get(rel, set()) != want:
                fails.append(("downstream-mismatch", "%s is not what its rules derive from this run's final relations (missing %s, extra %s)" % (
                    rel, sorted(want - outputs.get(rel, set()))[:3], sorted(outputs.get(rel, set()) - want)[:3])))
    return fails

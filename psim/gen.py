"""Seeded generator of Datalog workloads (program text + fact files) for the whole-program simulation checks.

The rule shapes are chosen for the RAM they become (DESIGN.md §5.A): scans with a filter, joins, recursive rules over
deltas, outermost aggregates, index scans with constants and existence checks all turn into PARALLEL operators at -jN.
Everything is derived from one random.Random(seed)."""
import random

REPRS = ["", "", "btree", "brie"]


class Prog:
    def __init__(self, rng, size="quick"):
        self.r = rng
        self.size = size
        self.types = []
        self.decls = []
        self.rules = []
        self.outputs = []
        self.facts = {}  # name -> list of tuples (strings)
        self.aux_facts = {}  # further fact files (file stem -> rows) that are read through explicit IO directives
        self.meta = {"outputs": [], "fragments": []}
        self.k = 0

    def fresh(self, base):
        self.k += 1
        return "%s%d" % (base, self.k)

    def decl(self, name, cols, repr_="", output=True, extra=""):
        q = (" " + repr_) if repr_ else ""
        self.decls.append(".decl %s(%s)%s%s" % (name, ", ".join("%s:%s" % c for c in cols), q, extra))
        if output:
            self.outputs.append(name)

    def rule(self, text):
        self.rules.append(text)

    def repr_for(self, arity, allow_eqrel=False):
        x = self.r.choice(REPRS)
        if x == "brie" and arity > 4:
            x = ""
        return x

    def text(self):
        out = []
        out += self.types
        out += self.decls
        for n in self.facts:
            out.append(".input %s" % n)
        out += self.rules
        for n in self.outputs:
            out.append(".output %s" % n)
        return "\n".join(out) + "\n"


def gen_edb(p, nfacts):
    r = p.r
    dom = r.choice([12, 20, 40, 80])
    p.meta["domain"] = dom
    p.decl("e1", [("x", "number"), ("y", "number")], output=False)
    p.decl("e2", [("x", "number"), ("y", "number"), ("z", "number")], output=False)
    p.decl("n1", [("x", "number")], output=False)
    p.decl("s1", [("a", "symbol"), ("x", "number")], output=False)
    n = nfacts
    style = r.randrange(3)
    e1 = set()
    for _ in range(n):
        if style == 0:
            e1.add((r.randrange(dom), r.randrange(dom)))
        elif style == 1:  # chain-ish: long derivation sequences
            a = r.randrange(dom)
            e1.add((a, (a + r.choice([1, 1, 2, 5])) % dom))
        else:  # clustered
            c = r.randrange(0, dom, 4)
            e1.add((c + r.randrange(4), c + r.randrange(6)))
    if r.random() < 0.3:
        e1.add((-3, 2))
        e1.add((2, -3))
    p.facts["e1"] = [("%d" % a, "%d" % b) for a, b in sorted(e1)]
    e2 = set((r.randrange(dom), r.randrange(dom), r.randrange(8)) for _ in range(max(4, n // 2)))
    p.facts["e2"] = [("%d" % a, "%d" % b, "%d" % c) for a, b, c in sorted(e2)]
    n1 = set(r.randrange(dom) for _ in range(max(3, n // 3)))
    p.facts["n1"] = [("%d" % a,) for a in sorted(n1)]
    syms = ["alpha", "beta", "gamma", "delta", "a b", "x_1", "Zeta", "", "long-symbol-%d" % r.randrange(99)]
    s1 = set((r.choice(syms), r.randrange(dom)) for _ in range(max(3, n // 4)))
    p.facts["s1"] = [(a, "%d" % b) for a, b in sorted(s1)]


# ---------------------------------------------------------------- fragments: each adds declarations + rules
def f_filter(p):
    n = p.fresh("flt")
    k = p.r.randrange(1, 9)
    p.decl(n, [("x", "number"), ("y", "number")], p.repr_for(2))
    p.rule("%s(x,y) :- e1(x,y), x < y + %d, x != %d." % (n, k, k))
    return n


def f_join(p):
    n = p.fresh("jn")
    p.decl(n, [("x", "number"), ("z", "number")], p.repr_for(2))
    p.rule("%s(x,z) :- e1(x,y), e1(y,z)." % n)
    if p.r.random() < 0.5:
        p.rule("%s(x,z) :- e2(x,y,z), e1(y,_), z < 6." % n)
    return n


def f_join3(p):
    n = p.fresh("j3")
    p.decl(n, [("a", "number"), ("b", "number"), ("c", "number")], p.repr_for(3))
    p.rule("%s(x,y,w) :- e2(x,y,w), e1(y,z), n1(z)." % n)
    return n


def f_tc(p):
    n = p.fresh("tc")
    p.decl(n, [("x", "number"), ("y", "number")], p.repr_for(2))
    p.rule("%s(x,y) :- e1(x,y), x != y." % n)
    if p.r.random() < 0.5:
        p.rule("%s(x,z) :- %s(x,y), e1(y,z), x != z." % (n, n))
    else:
        p.rule("%s(x,z) :- %s(x,y), %s(y,z), x != z." % (n, n, n))
    p.meta.setdefault("tc", []).append(n)
    return n


def f_mutual(p):
    a, b = p.fresh("ma"), p.fresh("mb")
    p.decl(a, [("x", "number"), ("y", "number")], p.repr_for(2))
    p.decl(b, [("x", "number"), ("y", "number")], p.repr_for(2))
    p.rule("%s(x,y) :- e1(x,y), x %% 2 = 0." % a)
    p.rule("%s(y,x) :- %s(x,y), n1(y)." % (b, a))
    p.rule("%s(x,z) :- %s(x,y), e1(y,z), x != z." % (a, b))
    return a


def f_negation(p):
    base = f_tc(p) if not p.meta.get("tc") else p.r.choice(p.meta["tc"])
    n = p.fresh("ng")
    p.decl(n, [("x", "number"), ("y", "number")], p.repr_for(2))
    p.rule("%s(x,y) :- %s(x,y), !e1(x,y), !n1(y)." % (n, base))
    return n


def f_aggr(p):
    base = f_tc(p) if not p.meta.get("tc") else p.r.choice(p.meta["tc"])
    n = p.fresh("ag")
    p.decl(n, [("x", "number"), ("c", "number"), ("s", "number"), ("mn", "number"), ("mx", "number")], p.repr_for(5))
    p.rule("%s(x,c,s,mn,mx) :- n1(x), c = count : { %s(x,_) }, s = sum y : { %s(x,y) }, mn = min y : { e1(x,y) }, mx = max y : { %s(x,y) }."
           % (n, base, base, base))
    t = p.fresh("tot")
    p.decl(t, [("c", "number"), ("s", "number")])
    p.rule("%s(c,s) :- c = count : { %s(_,_) }, s = sum y : { %s(_,y) }." % (t, base, base))
    # aggregate over an empty set
    z = p.fresh("emp")
    p.decl(z, [("c", "number"), ("s", "number")])
    p.rule("%s(c,s) :- c = count : { e1(x,x), x > 100000 }, s = sum x : { e1(x,_), x > 100000 }." % z)
    return n


def f_outer_aggr2(p):
    # outermost aggregates of every kind (count/sum/min/max/mean), with filters and computed targets; small integers so that
    # every summation order is exact
    n = p.fresh("ob")
    p.decl(n, [("c", "number"), ("s", "number"), ("lo", "number"), ("hi", "number")])
    k = p.r.randrange(1, 9)
    p.rule("%s(c,s,lo,hi) :- c = count : { e1(x,y), x < y + %d }, s = sum x*y+1 : { e1(x,y), x >= 0, y >= 0 }, lo = min x+y : { e1(x,y) }, hi = max x-y : { e2(x,y,_) }."
           % (n, k))
    fl = p.fresh("ofl")
    p.decl(fl, [("x", "number"), ("v", "float")])
    p.rule("%s(x, to_float(x) / 4) :- n1(x)." % fl)
    p.rule("%s(x, to_float(y) / 2) :- e1(x,y), x < 6." % fl)
    g = p.fresh("og")
    p.decl(g, [("m", "float"), ("s", "float")])
    p.rule("%s(m,s) :- m = mean v : { %s(_,v) }, s = sum v : { %s(_,v) }." % (g, fl, fl))
    m = p.fresh("om")
    p.decl(m, [("k", "number"), ("m", "float")])
    p.rule("%s(k,m) :- n1(k), m = mean v : { %s(k,v) }." % (m, fl))
    # outermost aggregates over an index range (a bound column): the parallel index-aggregate operators
    oi = p.fresh("oi")
    p.decl(oi, [("k", "number"), ("m", "float"), ("c", "number")])
    for kk in p.r.sample(range(0, 6), 2):
        p.rule("%s(%d,m,c) :- m = mean v : { %s(%d,v) }, c = count : { %s(%d,_) }." % (oi, kk, fl, kk, fl, kk))
    oj = p.fresh("oj")
    p.decl(oj, [("k", "number"), ("s", "number"), ("lo", "number")])
    kk = p.r.randrange(0, 6)
    p.rule("%s(%d,s,lo) :- s = sum a+b : { e2(%d,a,b) }, lo = min a-b : { e2(%d,a,b) }." % (oj, kk, kk, kk))
    return n


def f_outer_aggr(p):
    n = p.fresh("oa")
    p.decl(n, [("k", "number"), ("v", "number")], p.repr_for(2))
    k = p.r.randrange(0, 8)
    op = p.r.choice(["sum", "min", "max"])
    p.rule("%s(%d,v) :- v = %s z : { e2(_,%d,z) }." % (n, k, op, k))
    p.rule("%s(k,v) :- n1(k), v = count : { e1(k,_) }." % n)
    return n


def f_strings(p):
    base = f_tc(p) if not p.meta.get("tc") else p.r.choice(p.meta["tc"])
    n = p.fresh("st")
    k = p.r.randrange(3, 9)
    p.decl(n, [("s", "symbol")], p.repr_for(1))
    p.rule('%s(cat(to_string(x),"-",to_string(y))) :- %s(x,y), x < %d.' % (n, base, k))
    p.rule('%s(cat(a,"#",to_string(x))) :- s1(a,x).' % n)
    m = p.fresh("sl")
    p.decl(m, [("s", "symbol"), ("l", "number"), ("t", "symbol")], p.repr_for(3))
    p.rule("%s(s,strlen(s),substr(s,0,2)) :- %s(s)." % (m, n))
    q = p.fresh("sn")
    p.decl(q, [("x", "number")])
    p.rule("%s(to_number(to_string(x)) + 1) :- n1(x)." % q)
    c = p.fresh("sc")
    p.decl(c, [("a", "symbol"), ("b", "symbol")])
    p.rule('%s(a,b) :- s1(a,_), s1(b,_), contains("a",a), !match(".*_.*",b), a != b.' % c)
    return n


def f_records(p):
    base = f_tc(p) if not p.meta.get("tc") else p.r.choice(p.meta["tc"])
    t = p.fresh("Pair")
    p.types.append(".type %s = [a:number, b:number]" % t)
    n = p.fresh("rc")
    p.decl(n, [("p", t)], output=False)
    p.rule("%s([x,y]) :- %s(x,y), x < y." % (n, base))
    u = p.fresh("ru")
    p.decl(u, [("x", "number"), ("y", "number")], p.repr_for(2))
    p.rule("%s(y,x) :- %s([x,y])." % (u, n))
    # nested records with bounded depth
    lt = p.fresh("Lst")
    p.types.append(".type %s = [h:number, t:%s]" % (lt, lt))
    ln = p.fresh("ls")
    p.decl(ln, [("l", lt), ("d", "number")], output=False)
    p.rule("%s([x,nil],1) :- n1(x), x < 6." % ln)
    p.rule("%s([y,l],d+1) :- %s(l,d), l = [x,_], e1(x,y), d < 3." % (ln, ln))
    lo = p.fresh("lo")
    p.decl(lo, [("h", "number"), ("d", "number")])
    p.rule("%s(h,d) :- %s([h,_],d)." % (lo, ln))
    return u


def f_adt(p):
    t = p.fresh("Adt")
    p.types.append(".type %s = A%s {x:number} | B%s {x:number, y:number} | C%s {}" % (t, t, t, t))
    n = p.fresh("ad")
    p.decl(n, [("v", t)], output=False)
    p.rule("%s($A%s(x)) :- n1(x)." % (n, t))
    p.rule("%s($B%s(x,y)) :- e1(x,y), x < 7." % (n, t))
    p.rule("%s($C%s()) :- n1(_)." % (n, t))
    o = p.fresh("ao")
    p.decl(o, [("x", "number"), ("y", "number")], p.repr_for(2))
    p.rule("%s(x,0) :- %s($A%s(x))." % (o, n, t))
    p.rule("%s(x,y) :- %s($B%s(x,y))." % (o, n, t))
    return o


def f_eqrel(p):
    n = p.fresh("eq")
    p.decl(n, [("x", "number"), ("y", "number")], "eqrel")
    k = p.r.choice([2, 3, 5])
    p.rule("%s(x,y) :- e1(x,y), x %% %d = 0." % (n, k))
    m = p.fresh("eo")
    p.decl(m, [("x", "number"), ("y", "number")], p.repr_for(2))
    p.rule("%s(x,y) :- %s(x,y), x < y." % (m, n))
    if p.r.random() < 0.5:
        r2 = p.fresh("er")
        p.decl(r2, [("x", "number"), ("y", "number")], "eqrel")
        p.rule("%s(x,y) :- e1(x,y), x < 5." % r2)
        p.rule("%s(x,z) :- %s(x,y), e1(y,z), z < 9." % (r2, r2))
    return m


def f_multi(p):
    a, b = p.fresh("mh"), p.fresh("mh")
    p.decl(a, [("x", "number")])
    p.decl(b, [("x", "number")])
    k = p.r.randrange(2, 12)
    p.rule("%s(x), %s(x+1) :- n1(x), x > %d." % (a, b, k))
    d = p.fresh("dj")
    p.decl(d, [("x", "number")], p.repr_for(1))
    p.rule("%s(x) :- n1(x), x < 3 ; e1(x,_), x > %d." % (d, k + 10))
    return d


def f_arith(p):
    n = p.fresh("ar")
    p.decl(n, [("x", "number"), ("a", "number"), ("b", "number"), ("c", "number")], p.repr_for(4))
    p.rule("%s(x, (x*7+y) %% 13, x band y, x bor y) :- e1(x,y), x >= 0, y >= 0." % n)
    u = p.fresh("un")
    p.decl(u, [("x", "unsigned"), ("y", "unsigned")])
    p.rule("%s(to_unsigned(x), to_unsigned(x) * 3 + 1) :- n1(x), x >= 0." % u)
    f = p.fresh("fl")
    p.decl(f, [("x", "number"), ("v", "float")])
    p.rule("%s(x, to_float(x) / 4) :- n1(x)." % f)
    g = p.fresh("fm")
    p.decl(g, [("lo", "float"), ("hi", "float")])
    p.rule("%s(lo,hi) :- lo = min v : { %s(_,v) }, hi = max v : { %s(_,v) }." % (g, f, f))
    rg = p.fresh("rg")
    p.decl(rg, [("x", "number"), ("y", "number")], p.repr_for(2))
    p.rule("%s(x,y) :- n1(x), x < 9, y = range(0, 4)." % rg)
    return n


def f_indexed(p):
    n = p.fresh("ix")
    k = p.r.randrange(0, 12)
    p.decl(n, [("y", "number"), ("z", "number")], p.repr_for(2))
    p.rule("%s(y,z) :- e1(%d,y), e1(y,z)." % (n, k))
    m = p.fresh("ex")
    p.decl(m, [("x", "number")], p.repr_for(1))
    p.rule("%s(x) :- n1(x), e1(x,_), e2(_,x,_)." % m)
    q = p.fresh("iq")
    p.decl(q, [("x", "number"), ("y", "number")], p.repr_for(2))
    p.rule("%s(x,y) :- n1(x), e1(x,y), y > x." % q)
    return n


def f_facts(p):
    # relations defined by facts written in the program text, by facts and rules, and by facts and recursive rules
    r = p.r
    a = p.fresh("fa")
    p.decl(a, [("x", "number"), ("s", "symbol")], p.repr_for(2))
    for i in range(r.randrange(1, 6)):
        p.rule('%s(%d,"f%d").' % (a, r.randrange(50), i))
    b = p.fresh("fb")
    p.decl(b, [("x", "number")], p.repr_for(1))
    for i in range(r.randrange(1, 5)):
        p.rule("%s(%d)." % (b, 200 + i))
    p.rule("%s(x+1) :- n1(x), x > 2." % b)
    c = p.fresh("fc")
    p.decl(c, [("x", "number")])
    p.rule("%s(%d)." % (c, r.randrange(6)))
    p.rule("%s(y) :- %s(x), e1(x,y)." % (c, c))
    return a


def f_exists_idx(p):
    # PARALLEL IF EXISTS ... ON INDEX ... WHERE <condition on two attributes of the probed tuple>, over a large index range
    r = p.r
    if "e3" not in p.facts:
        p.decl("e3", [("k", "number"), ("y", "number"), ("z", "number")], output=False)
        rows = set()
        for _ in range(r.choice([60, 150, 400])):
            k = r.randrange(3)
            y = r.randrange(40)
            z = r.randrange(40)
            if k == 1 and y == z:
                z = y + 1  # key 1 has no witness of y = z: a run that reports one mixed two threads' tuples
            rows.add((k, y, z))
        # exactly one witness of y = z + 37 (used by a non-indexed existence test below)
        rows = set(t for t in rows if t[1] != t[2] + 37)
        rows.add((r.randrange(3), 39, 2))
        p.facts["e3"] = [("%d" % a, "%d" % b, "%d" % c) for a, b, c in sorted(rows)]
    a = p.fresh("hit")
    p.decl(a, [("k", "number")])
    p.rule("%s(1) :- e3(1,y,z), y = z." % a)
    p.rule("%s(2) :- e3(2,y,z), y + 3 < z." % a)
    p.rule("%s(10) :- e3(0,y,z), y > z, z > 35." % a)
    # the same relation probed through a second index (bound last column): the condition reads the other two columns, which
    # sit at different positions in that index' order.  k is 0..2, so the first condition has no witness and the second
    # nearly always has one - on the true columns
    zc = r.sample(range(40), 3)
    p.rule("%s(%d) :- e3(k,y,%d), k > y + 30." % (a, 100 + zc[0], zc[0]))
    p.rule("%s(%d) :- e3(k,y,%d), k <= y + 1." % (a, 200 + zc[1], zc[1]))
    p.rule("%s(%d) :- e3(k,%d,z), z < k." % (a, 300 + zc[2], zc[2]))
    # non-indexed existence tests over the whole relation: a single witness somewhere in the middle of a chunk / no witness
    p.rule("%s(400) :- e3(_,y,z), y = z + 37." % a)
    p.rule("%s(401) :- e3(k,y,z), y = z + 38, k >= 0." % a)
    p.rule("%s(402) :- e3(k,y,z), k + y + z > 77, y > z." % a)
    b = p.fresh("hitn")
    p.decl(b, [("x", "number")], p.repr_for(1))
    p.rule("%s(x) :- n1(x), e3(2,y,z), y = z + 1." % b)
    return a


def f_exists(p):
    # atoms whose variables are unused become (PARALLEL) IF EXISTS / IF EXISTS ... ON INDEX
    a = p.fresh("any")
    k = p.r.randrange(0, 10)
    p.decl(a, [])
    p.rule("%s() :- e1(x,_), x > %d." % (a, k))
    b = p.fresh("anyk")
    p.decl(b, [("k", "number")])
    p.rule("%s(%d) :- e1(x,y), x < y." % (b, k))
    p.rule("%s(%d) :- e1(%d,_)." % (b, k + 100, k))
    c = p.fresh("anyn")
    p.decl(c, [("k", "number")], p.repr_for(1))
    p.rule("%s(z) :- n1(z), e2(_,_,w), w > 5." % c)
    return a


def f_index_brie(p):
    # (PARALLEL) index scans whose bodies insert into brie / btree relations: per-thread operation contexts matter here
    a = p.fresh("ib")
    k = p.r.randrange(0, 6)
    p.decl(a, [("x", "number"), ("y", "number"), ("z", "number")], p.r.choice(["brie", "brie", "btree", ""]))
    p.rule("%s(x,y,z) :- e1(x,y), e1(y,z), x > %d." % (a, k))
    b = p.fresh("ib")
    p.decl(b, [("y", "number"), ("z", "number")], p.r.choice(["brie", "brie", ""]))
    p.rule("%s(y,z) :- e1(%d,y), e1(y,z)." % (b, k))
    p.rule("%s(y,w) :- e2(x,y,w), x >= %d, e1(y,_)." % (b, k))
    c = p.fresh("ib")
    p.decl(c, [("x", "number"), ("w", "number")], "brie")
    p.rule("%s(x,w) :- n1(x), x > %d, e2(x,_,w), !e1(w,x)." % (c, k))
    return a


def f_eqrel_input(p):
    """an input relation with eqrel storage (its contents are the closure of the loaded / inserted pairs)"""
    r = p.r
    n = p.fresh("qi")
    p.decl(n, [("x", "number"), ("y", "number")], "eqrel", output=False)
    dom = p.meta["domain"]
    p.facts[n] = sorted(set(("%d" % r.randrange(dom), "%d" % r.randrange(dom)) for _ in range(r.randrange(2, 12))))
    p.meta.setdefault("eqrel_inputs", []).append(n)
    m = p.fresh("qo")
    p.decl(m, [("x", "number"), ("y", "number")], p.repr_for(2))
    p.rule("%s(x,y) :- %s(x,y), x < y." % (m, n))
    c = p.fresh("qc")
    p.decl(c, [("x", "number"), ("c", "number")])
    p.rule("%s(x,c) :- n1(x), c = count : { %s(x,_) }." % (c, n))
    return m


def f_itercnt(p):
    """the iteration counter of the enclosing fixpoint loop, read inside a parallel operation of a recursive rule"""
    n = p.fresh("itc")
    p.decl(n, [("x", "number"), ("y", "number"), ("i", "unsigned")], p.repr_for(3))
    k = p.r.randrange(3, 7)
    p.rule("%s(x,y,0) :- e1(x,y), x < y." % n)
    p.rule("%s(x,z,recursive_iteration_cnt()) :- %s(x,y,_), e1(y,z), recursive_iteration_cnt() < %d." % (n, n, k))
    return n


def f_two_inputs(p):
    """a relation filled by two .input directives (two fact files)"""
    r = p.r
    n = p.fresh("tin")
    p.decl(n, [("x", "number"), ("y", "number")], r.choice(["", "btree", "brie"]))
    dom = p.meta["domain"]
    a = sorted(set((r.randrange(dom), r.randrange(dom)) for _ in range(r.randrange(2, 12))))
    b = sorted(set((r.randrange(dom), r.randrange(dom)) for _ in range(r.randrange(3, 14))) | set(a[:1]))
    p.facts[n] = [("%d" % x, "%d" % y) for x, y in a]
    p.aux_facts[n + "_b"] = [("%d" % x, "%d" % y) for x, y in b]
    p.meta.setdefault("aux_inputs", {})[n + "_b"] = n  # fact file stem -> relation it is loaded into
    p.meta.setdefault("io_rels", []).append(n)  # it is an output relation as well
    p.rule('.input %s(IO="file", filename="%s_b.facts")' % (n, n))
    m = p.fresh("tid")
    p.decl(m, [("x", "number"), ("z", "number")])
    p.rule("%s(x,z) :- %s(x,y), e1(y,z)." % (m, n))
    return m


def f_nullary_rec(p):
    """a nullary relation inside a recursive SCC (its rule is guarded by 'already derived')"""
    r = p.r
    q, z = p.fresh("nq"), p.fresh("nz")
    k = r.randrange(2, 12)
    p.decl(q, [("x", "number")], p.repr_for(1))
    p.decl(z, [])
    p.rule("%s(x) :- n1(x), x < 4." % q)
    p.rule("%s(y) :- %s(x), e1(x,y)." % (q, q))
    p.rule("%s() :- %s(x), x > %d." % (z, q, k))
    p.rule("%s(x+1000) :- %s(), %s(x), x < 6." % (q, z, q))
    return q


def f_multi_index(p):
    """the input relations searched through several different indexes (bound second / third column)"""
    a = p.fresh("mi")
    p.decl(a, [("x", "number"), ("z", "number")], p.repr_for(2))
    p.rule("%s(x,z) :- n1(x), e1(x,z)." % a)
    p.rule("%s(z,x) :- n1(z), e1(x,z), x != z." % a)
    b = p.fresh("mj")
    p.decl(b, [("a", "number"), ("k", "number")])
    p.rule("%s(a,1) :- n1(a), e2(_,a,_)." % b)
    p.rule("%s(a,2) :- n1(a), e2(_,_,a)." % b)
    p.rule("%s(a,3) :- n1(a), e2(a,_,_)." % b)
    c = p.fresh("mk")
    p.decl(c, [("s", "symbol"), ("x", "number")])
    p.rule('%s(s,x) :- n1(x), s1(s,x).' % c)
    p.rule('%s(s,x) :- s1(s,x), s = "alpha".' % c)
    return a


def f_limitsize(p):
    """a recursive relation with a size limit that grows by exactly one tuple per iteration (C20 known finding: the profile also
    counts the tuple of the last, discarded @new relation)"""
    n = p.fresh("lz")
    k = p.r.randrange(3, 12)
    p.decl(n, [("x", "number")])
    p.rule(".limitsize %s(n=%d)" % (n, k))
    p.rule("%s(0)." % n)
    p.rule("%s(x+1) :- %s(x), x < 60." % (n, n))
    p.meta.setdefault("limitsize_chain", []).append(n)
    return n


def f_wide(p):
    """relations of arity 7 and 8 with default storage (the synthesiser's indirect relations), one of them an input, searched
    through two indexes"""
    r = p.r
    n = p.fresh("wi")
    cols = [("c%d" % i, "number") for i in range(7)]
    p.decl(n, cols, output=False)
    dom = p.meta["domain"]
    rows = set()
    for _ in range(r.randrange(3, 25)):
        a, b = r.randrange(dom), r.randrange(dom)
        rows.add((a, b, a + b, r.randrange(4), 7, b, r.randrange(3)))
    p.facts[n] = [tuple("%d" % v for v in t) for t in sorted(rows)]
    m = p.fresh("wo")
    p.decl(m, [("c%d" % i, "number") for i in range(8)])
    p.rule("%s(a,b,c,d,e,f,g,x) :- %s(a,b,c,d,e,f,g), e1(a,x)." % (m, n))
    p.rule("%s(a,b,c,d,e,f,g,0) :- %s(a,b,c,d,e,f,g), n1(f)." % (m, n))
    q = p.fresh("wq")
    p.decl(q, [("a", "number"), ("g", "number")])
    p.rule("%s(a,g) :- n1(g), %s(a,_,_,_,_,_,g,_)." % (q, m))
    p.rule("%s(a,g) :- n1(a), %s(a,_,_,_,_,_,g)." % (q, n))
    return m


def f_aggr_neg(p):
    """outermost index-range aggregates whose condition probes another (brie / btree) relation: membership tests inside the
    parallel aggregate loop"""
    r = p.r
    b = p.fresh("bn")
    p.decl(b, [("a", "number"), ("b", "number")], r.choice(["brie", "brie", "btree"]))
    p.rule("%s(a,b) :- e2(_,a,b), a < b + 2." % b)
    p.rule("%s(a,b) :- e1(a,b), a %% 3 = 0." % b)
    n = p.fresh("an")
    p.decl(n, [("k", "number"), ("c", "number"), ("s", "number")])
    dom = p.meta["domain"]
    for kk in r.sample(range(0, min(dom, 12)), 3):
        p.rule("%s(%d,c,s) :- c = count : { e2(%d,a,b), !%s(a,b) }, s = sum a+b : { e2(%d,a,b), %s(a,b) }." % (n, kk, kk, b, kk, b))
    m = p.fresh("am")
    p.decl(m, [("k", "number"), ("lo", "number")])
    kk = r.randrange(0, min(dom, 12))
    p.rule("%s(%d,lo) :- lo = min y : { e1(%d,y), !%s(%d,y) }." % (m, kk, kk, b, kk))
    return n


def f_io_relation(p):
    """a relation that is both .input and .output (no rules of its own) and feeds a derived relation"""
    r = p.r
    n = p.fresh("io")
    p.decl(n, [("x", "number"), ("y", "number")], r.choice(["", "btree", "brie"]))
    dom = p.meta["domain"]
    p.facts[n] = sorted(set(("%d" % r.randrange(dom), "%d" % r.randrange(dom)) for _ in range(r.randrange(2, 15))))
    p.meta.setdefault("io_rels", []).append(n)
    m = p.fresh("iod")
    p.decl(m, [("x", "number"), ("z", "number")])
    p.rule("%s(x,z) :- %s(x,y), %s(y,z)." % (m, n, n))
    p.rule("%s(x,y) :- %s(x,y), n1(x)." % (m, n))
    return m


def f_typed_input(p):
    """input relations with unsigned / float / symbol columns and non-default storage"""
    r = p.r
    n = p.fresh("ti")
    p.decl(n, [("u", "unsigned"), ("f", "float"), ("s", "symbol")], output=False)
    rows = set()
    for _ in range(r.randrange(3, 15)):
        u = r.choice([r.randrange(10), r.randrange(10), 2147483648 + r.randrange(5), 4294967290 + r.randrange(5)])
        rows.add(("%d" % u, "%g" % (r.randrange(-40, 40) / 4.0), r.choice(["a", "b b", "c_d", "x1", "", "Z"]) or "e"))
    p.facts[n] = sorted(rows)
    m = p.fresh("to")
    p.decl(m, [("u", "unsigned"), ("f", "float"), ("s", "symbol")], p.repr_for(3))
    p.rule("%s(u,f,s) :- %s(u,f,s), u > 2." % (m, n))
    b = p.fresh("bi")
    p.decl(b, [("x", "number"), ("y", "number")], r.choice(["brie", "btree"]), output=False)
    dom = p.meta["domain"]
    p.facts[b] = sorted(set(("%d" % r.randrange(-3, dom), "%d" % r.randrange(dom)) for _ in range(r.randrange(2, 20))))
    o = p.fresh("bo")
    p.decl(o, [("x", "number"), ("y", "number")])
    p.rule("%s(x,z) :- %s(x,y), e1(y,z)." % (o, b))
    return m


FRAGMENTS = [f_exists, f_exists_idx, f_facts, f_index_brie, f_outer_aggr2, f_filter, f_join, f_join3, f_tc, f_mutual, f_negation, f_aggr, f_outer_aggr, f_strings, f_records, f_adt, f_eqrel, f_multi,
             f_arith, f_indexed, f_eqrel_input, f_typed_input, f_io_relation, f_itercnt, f_two_inputs, f_nullary_rec, f_multi_index, f_wide, f_aggr_neg]


def f_input_derived(p):
    """relations that are loaded from a fact file *and* defined by rules"""
    r = p.r
    a = p.fresh("idr")  # input + recursive rules only
    p.decl(a, [("x", "number")])
    p.facts[a] = [("%d" % v,) for v in sorted(set(r.randrange(p.meta["domain"]) for _ in range(r.randrange(1, 5))))]
    p.rule("%s(y) :- %s(x), e1(x,y)." % (a, a))
    b = p.fresh("idn")  # input + a non-recursive rule
    p.decl(b, [("x", "number"), ("y", "number")])
    p.facts[b] = [("%d" % (900 + i), "%d" % r.randrange(9)) for i in range(r.randrange(1, 6))]
    p.rule("%s(x,z) :- e1(x,y), e1(y,z), x < z." % b)
    p.meta.setdefault("input_derived_nonrec", []).append(b)
    p.meta.setdefault("input_derived_rec", []).append(a)
    return a


def gen_c21(seed, size="quick"):
    """programs for the embedding-API histories: no relation that is both input and derived (the history model keeps inputs and
    derived relations apart); often with eqrel relations, eqrel / brie / typed input relations"""
    rr = random.Random(seed ^ 0x21)
    always = tuple(f for f, pr in ((f_eqrel, 0.3), (f_eqrel_input, 0.4), (f_typed_input, 0.4), (f_io_relation, 0.5), (f_wide, 0.3), (f_two_inputs, 0.4)) if rr.random() < pr)
    return gen_c03(seed, size, exclude=(f_input_derived,), always=(f_multi_index,) + always)


def gen_c20(seed, size="quick"):
    """C03's fragment without eqrel storage (the statement excludes it); every IDB relation is an output; half of the programs
    also contain relations that are both loaded from facts and defined by rules."""
    r = random.Random(seed ^ 0x20)
    always = ((f_input_derived,) if r.random() < 0.5 else ()) + ((f_limitsize,) if r.random() < 0.3 else ())
    return gen_c03(seed, size, exclude=(f_eqrel, f_eqrel_input, f_input_derived), always=always)


def gen_c03c(seed, size="quick"):
    """workloads for the synthesised-program runs: always contain index scans that insert into brie/btree relations"""
    return gen_c03(seed, size, always=(f_index_brie, f_indexed, f_aggr_neg, f_outer_aggr2))


def gen_c03(seed, size="quick", exclude=(), always=()):
    r = random.Random(seed)
    p = Prog(r, size)
    nfacts = r.choice([30, 60, 120, 120, 400]) if size == "quick" else r.choice([60, 150, 400, 1000, 2500])
    gen_edb(p, nfacts)
    k = r.randrange(3, 8) if size == "quick" else r.randrange(4, 12)
    frs = [f for f in FRAGMENTS if f not in exclude and f not in always]
    for f in list(always) + r.sample(frs, min(k, len(frs))):
        f(p)
        p.meta["fragments"].append(f.__name__)
    p.meta["outputs"] = list(p.outputs)
    return p


# ---------------------------------------------------------------- C22: auto-increment
def gen_c22(seed, size="quick"):
    r = random.Random(seed)
    p = Prog(r, size)
    gen_edb(p, r.choice([40, 80, 160]) if size == "quick" else r.choice([100, 300, 800]))
    p.meta["autoinc"] = []
    nrules = r.randrange(1, 4)
    for i in range(nrules):
        n = p.fresh("ai")
        c = p.fresh("ac")
        shape = r.randrange(11)
        rep = r.choice(["", "btree", "brie"])
        if shape == 10:
            # two counter relations with textually identical rules that are not outputs themselves; their copies are
            twins = [p.fresh("tw"), p.fresh("tw")]
            for tname in twins:
                p.decl(tname, [("id", "number"), ("x", "number")], rep, output=False)
                p.rule("%s(autoinc(),x) :- n1(x)." % tname)
            p.decl(c, [("x", "number")])
            p.rule("%s(x) :- n1(x)." % c)
            for tname in twins:
                o = p.fresh("two")
                p.decl(o, [("id", "number"), ("x", "number")])
                p.rule("%s(i,x) :- %s(i,x)." % (o, tname))
                p.meta["autoinc"].append({"rel": o, "idcol": 0, "sibling": c, "always": True})
            continue
        if shape in (7, 8, 9):
            # 7: two counters in one head; 8: two rules for one counter relation; 9: the counter inside an arithmetic expression
            if shape == 7:
                p.decl(n, [("x", "number"), ("id", "number"), ("id2", "number")], rep)
                p.rule("%s(x,autoinc(),autoinc()) :- n1(x)." % n)
                p.decl(c, [("x", "number")])
                p.rule("%s(x) :- n1(x)." % c)
                p.meta["autoinc"].append({"rel": n, "idcol": 1, "idcols": [1, 2], "sibling": c})
            elif shape == 8:
                p.decl(n, [("x", "number"), ("y", "number"), ("id", "number")], rep)
                p.rule("%s(x,y,autoinc()) :- e1(x,y), x < y." % n)
                p.rule("%s(y,x,autoinc()) :- e1(x,y), x < y." % n)
                p.rule("%s(x,y,autoinc()) :- e1(x,y), x > y, n1(x)." % n)
                p.decl(c, [("t", "number"), ("x", "number"), ("y", "number")])
                p.rule("%s(1,x,y) :- e1(x,y), x < y." % c)
                p.rule("%s(2,x,y) :- e1(x,y), x < y." % c)
                p.rule("%s(3,x,y) :- e1(x,y), x > y, n1(x)." % c)
                p.meta["autoinc"].append({"rel": n, "idcol": 2, "sibling": c})
            else:
                p.decl(n, [("x", "number"), ("id", "number")], rep)
                p.rule("%s(x,autoinc()*3+1) :- e1(x,_)." % n)  # one id per instantiation of the body (x is not a key)
                p.decl(c, [("x", "number"), ("y", "number")])
                p.rule("%s(x,y) :- e1(x,y)." % c)
                p.meta["autoinc"].append({"rel": n, "idcol": 1, "sibling": c, "mul": 3, "add": 1})
            continue
        if shape == 0:
            body = "e1(x,y), x != y"
            head_cols = [("x", "number"), ("y", "number"), ("id", "number")]
            head = "%s(x,y,autoinc())"
            sib = "%s(x,y)"
            sib_cols = [("x", "number"), ("y", "number")]
        elif shape == 1:
            body = "e1(x,y), e1(y,z)"  # one head value derived many times: each derivation gets its own id
            head_cols = [("x", "number"), ("z", "number"), ("id", "number")]
            head = "%s(x,z,autoinc())"
            sib = "%s(x,y,z)"
            sib_cols = [("x", "number"), ("y", "number"), ("z", "number")]
        elif shape == 2:
            body = "e2(x,y,w), n1(x), w < 6"
            head_cols = [("x", "number"), ("id", "number"), ("y", "number")]
            head = "%s(x,autoinc(),y)"
            sib = "%s(x,y,w)"
            sib_cols = [("x", "number"), ("y", "number"), ("w", "number")]
        elif shape == 4:
            k = r.randrange(0, 6)  # outermost index scan (constant in the first atom)
            body = "e1(%d,y), e1(y,z)" % k
            head_cols = [("y", "number"), ("z", "number"), ("id", "number")]
            head = "%s(y,z,autoinc())"
            sib = "%s(y,z)"
            sib_cols = [("y", "number"), ("z", "number")]
        elif shape == 5:
            k = r.randrange(0, 6)  # outermost range index scan
            body = "e1(x,y), x > %d, e2(y,v,w), v >= 0" % k
            head_cols = [("id", "number"), ("x", "number"), ("w", "number")]
            head = "%s(autoinc(),x,w)"
            sib = "%s(x,y,v,w)"  # the sibling lists every body instantiation
            sib_cols = [("x", "number"), ("y", "number"), ("v", "number"), ("w", "number")]
        elif shape == 6:
            # the counter value is used twice in one head and feeds a later stratum
            body = "e1(x,y), x != y"
            head_cols = [("x", "number"), ("id", "number"), ("y", "number")]
            head = "%s(x,autoinc(),y)"
            sib = "%s(x,y)"
            sib_cols = [("x", "number"), ("y", "number")]
        else:
            body = "n1(x), e1(x,y), y > x"
            head_cols = [("id", "number"), ("x", "number"), ("y", "number")]
            head = "%s(autoinc(),x,y)"
            sib = "%s(x,y)"
            sib_cols = [("x", "number"), ("y", "number")]
        p.decl(n, head_cols, rep)
        p.rule((head % n) + " :- " + body + ".")
        p.decl(c, sib_cols)
        p.rule((sib % c) + " :- " + body + ".")
        idcol = [i for i, cc in enumerate(head_cols) if cc[0] == "id"][0]
        p.meta["autoinc"].append({"rel": n, "idcol": idcol, "sibling": c})
    # ordinary parallelisable rules in the same program
    for f in r.sample([f_filter, f_join, f_tc, f_strings], r.randrange(0, 3)):
        f(p)
    p.meta["outputs"] = list(p.outputs)
    return p


if __name__ == "__main__":
    import sys
    p = gen_c03(int(sys.argv[1]) if len(sys.argv) > 1 else 1)
    print(p.text())
